/-
  C03 — Nibiru EVM state transitions equal go-ethereum's on the same program.

  What is proved here (and what is not):
    * over the reference semantics NibiruModel.GethSpec (validated against the real go-ethereum StateDB on every run, and against
      Nibiru's real StateDB on the same call sequences): a `RevertToSnapshot` after any sequence of ordinary calls restores
      the transaction state exactly, whatever the calls were, and leaves the persisted state untouched; ordinary calls never
      touch the persisted state; nested snapshots behave like a stack;
    * over the model of Nibiru's implementation NibiruModel.StateDB (the journal): each journal entry's `Revert` is the exact
      inverse of the mutation that appended it, for the refund counter, logs, access list and for balance / nonce / code / storage /
      self-destruct of a cached state object (the "one entry per mutation, exact inverse" mechanism the property is anchored in);
    * the EIP-3529 refund computation of ApplyEvmMsg equals go-ethereum's for all inputs.
    * over the same model, for ANY sequence of write calls on cached accounts: Snapshot … RevertToSnapshot succeeds and restores
      every observable of the StateDB (balance, nonce, code hash, self-destruct flag, current and committed value of every slot,
      refund counter, log count, access list) — induction over the sequence (NibiruProofs/SDBRevert.lean);
    * the simulation NibiruModel.StateDB ~ GethSpec for ANY sequence of write calls, on lazily loaded accounts, accounts created by
      the first write, and accounts absent from the store (NibiruProofs/SDBSim.lean): after the sequence every account read, every
      `GetState` / `GetCommittedState`, the refund counter, the log count and the access list answer as the reference does;
    * `CreateAccount` preserves the same relation wherever the store holds no slots under the address (the case `evm.create`
      allows); with persisted slots the two implementations differ by design of Nibiru's object cache (see DESIGN.md);
    * a reverted frame — Snapshot, any write sequence on cached accounts, RevertToSnapshot — leaves the journaled model related to
      the reference after ITS revert (`C03_reverted_frame_simulates_reference_partial`), so frames can be chained;
  NOT proved: one statement over arbitrary frame trees (nested frames inside kept frames), and `Commit` on the reference
  side (what Nibiru's Commit persists is proved in SDBCommit.lean); there the observational equality rests on the three-way
  correspondence run.
  The interpreter itself is the same code on both sides and is trusted.
-/
import NibiruModel.GethSpec
import NibiruModel.StateDB
import NibiruProofs.SDBRevert
import NibiruProofs.SDBSim
import Generated.Facts

namespace Nibiru.GethSpec
open Nibiru

/-! ### reference semantics: snapshots -/

theorem apply_plain_frame (g : G) (o : Op) (h : o.plain = true) :
    (apply g o).1.base = g.base ∧ (apply g o).1.snaps = g.snaps ∧ (apply g o).1.next = g.next := by
  cases o <;> simp [Op.plain] at h
  all_goals first
    | (simp [apply, setObj]; done)
    | (simp only [apply]; split <;> simp [setObj])

def runOps (g : G) (ops : List Op) : G := ops.foldl (fun acc o => (apply acc o).1) g

theorem runOps_plain_frame (g : G) (ops : List Op) (h : ∀ o ∈ ops, o.plain = true) :
    (runOps g ops).base = g.base ∧ (runOps g ops).snaps = g.snaps ∧ (runOps g ops).next = g.next := by
  induction ops generalizing g with
  | nil => exact ⟨rfl, rfl, rfl⟩
  | cons o t ih =>
    simp only [runOps, List.foldl_cons]
    obtain ⟨a, b, c⟩ := apply_plain_frame g o (h o (List.mem_cons_self ..))
    obtain ⟨a', b', c'⟩ := ih (apply g o).1 (fun o' ho' => h o' (List.mem_cons_of_mem _ ho'))
    exact ⟨a'.trans a, b'.trans b, c'.trans c⟩

/-- snapshot identifiers handed out so far are below `next` -/
def IdsBelow (g : G) : Prop := ∀ r ∈ g.snaps, r.1 < g.next

theorem find_appended (l : List (Nat × Tx)) (n : Nat) (t : Tx) (h : ∀ r ∈ l, r.1 < n) :
    (l ++ [(n, t)]).find? (fun r => r.1 = n) = some (n, t) := by
  induction l with
  | nil => simp
  | cons x xs ih =>
    have hx : x.1 < n := h x (List.mem_cons_self ..)
    have : ¬ x.1 = n := by omega
    simp only [List.cons_append, List.find?_cons, this, decide_false]
    exact ih (fun r hr => h r (List.mem_cons_of_mem _ hr))

theorem filter_appended (l : List (Nat × Tx)) (n : Nat) (t : Tx) (h : ∀ r ∈ l, r.1 < n) :
    (l ++ [(n, t)]).filter (fun r => r.1 < n) = l := by
  rw [List.filter_append]
  have h1 : l.filter (fun r => decide (r.1 < n)) = l := List.filter_eq_self.mpr (fun r hr => by simpa using h r hr)
  simp [h1]

/-- **C03 (reference semantics, revert).** Take a snapshot, perform ANY sequence of ordinary interface calls (balance, nonce, code,
    storage writes, account creation, self-destruct, logs, refunds, access-list additions, reads), revert to the snapshot: the
    transaction state is exactly the one at the snapshot, the persisted state and the older snapshots are as they were. -/
theorem C03_spec_revert_restores (g : G) (hg : IdsBelow g) (ops : List Op) (h : ∀ o ∈ ops, o.plain = true) :
    let g1 := (apply g .snapshot).1
    let g2 := runOps g1 ops
    let r := apply g2 (.revert g.next)
    r.2 = "ok" ∧ r.1.tx = g.tx ∧ r.1.base = g.base ∧ r.1.snaps = g.snaps := by
  intro g1 g2 r
  have hg1 : g1 = { g with snaps := g.snaps ++ [(g.next, g.tx)], next := g.next + 1 } := rfl
  obtain ⟨hb, hs, _⟩ := runOps_plain_frame g1 ops h
  have hs2 : g2.snaps = g.snaps ++ [(g.next, g.tx)] := by rw [show g2 = runOps g1 ops from rfl, hs, hg1]
  have hb2 : g2.base = g.base := by rw [show g2 = runOps g1 ops from rfl, hb, hg1]
  have hfind := find_appended g.snaps g.next g.tx hg
  have hfil := filter_appended g.snaps g.next g.tx hg
  show (apply g2 (.revert g.next)).2 = "ok" ∧ (apply g2 (.revert g.next)).1.tx = g.tx ∧
    (apply g2 (.revert g.next)).1.base = g.base ∧ (apply g2 (.revert g.next)).1.snaps = g.snaps
  refine ⟨?_, ?_, ?_, ?_⟩ <;> simp [apply, hs2, hfind, hfil, hb2]

/-- ordinary calls never write the persisted state: only the end of the transaction does -/
theorem C03_spec_persisted_untouched_until_commit (g : G) (ops : List Op) (h : ∀ o ∈ ops, o.plain = true) :
    (runOps g ops).base = g.base := (runOps_plain_frame g ops h).1

/-- a reverted snapshot identifier (and every younger one) cannot be used again -/
theorem C03_spec_revert_consumes_id (g : G) (id : Nat) (h : (apply g (.revert id)).2 = "ok") :
    ∀ r ∈ (apply g (.revert id)).1.snaps, r.1 < id := by
  simp only [apply] at h ⊢
  cases hf : g.snaps.find? (fun r => r.1 = id) with
  | none => simp [hf] at h
  | some p =>
    obtain ⟨i, t⟩ := p
    simp only [hf]
    intro r hr
    simpa using (List.mem_filter.mp hr).2

/-! ### the gas refund of the state transition -/

/-- **C03 (refund).** Nibiru's `gasToRefund` and go-ethereum's `refundGas` give the same gas used for every gas limit, leftover
    and refund counter. -/
theorem C03_refund_equals_geth (gasLimit gasLeft counter : Nat) :
    gasUsedAfterRefund gasLimit gasLeft counter = gethGasUsedAfterRefund gasLimit gasLeft counter := by
  unfold gasUsedAfterRefund gethGasUsedAfterRefund
  simp only
  split <;> congr 1 <;> omega

/-- the refund never exceeds a fifth of the gas used (EIP-3529) -/
theorem C03_refund_cap (gasLimit gasLeft counter : Nat) :
    (gasLimit - gasLeft) - gasUsedAfterRefund gasLimit gasLeft counter ≤ (gasLimit - gasLeft) / refundQuotient := by
  unfold gasUsedAfterRefund refundQuotient
  simp only [Nat.min_def]
  split <;> omega

end Nibiru.GethSpec

/-! ### Nibiru's journal: every entry's Revert is the inverse of its mutation -/

namespace Nibiru.SDB
open Nibiru

theorem C03_journal_inverse_addRefund (s : S) (g : Nat) :
    (revertEntry (addRefund s g) (.refund s.refund)).refund = s.refund := rfl

theorem C03_journal_inverse_subRefund (s s' : S) (g : Nat) (h : subRefund s g = some s') :
    s'.journal = s.journal ++ [.refund s.refund] ∧ (revertEntry s' (.refund s.refund)).refund = s.refund := by
  unfold subRefund at h
  split at h
  · cases h
  · injection h with h
    subst h
    exact ⟨rfl, rfl⟩

theorem C03_journal_inverse_addLog (s : S) : (revertEntry (addLog s) .addLog).logs = s.logs := by
  simp [addLog, revertEntry, append]

theorem getObj_cached (s : S) (a : Nat) (o : Obj) (h : AList.find? s.objs a = some o) : getObj s a = (s, some o) := by
  simp [getObj, h]

theorem getOrNew_cached (s : S) (a : Nat) (o : Obj) (h : AList.find? s.objs a = some o) : getOrNew s a = (s, o) := by
  simp [getOrNew, getObj_cached s a o h]

theorem find_setObj_append (s : S) (a : Nat) (e : Entry) (o : Obj) :
    AList.find? (setObj (append s e) a o).objs a = some o := by
  simp [setObj, append, AList.find?_set_self]

/-- balance: after `SetBalance`-like mutations of a cached object, reverting the appended entry puts the old object back -/
theorem C03_journal_inverse_balance (s : S) (a : Nat) (o : Obj) (d : Int) (h : AList.find? s.objs a = some o) (hd : d ≠ 0) :
    let s' := addBalance s a d
    s'.journal = s.journal ++ [.balance a o.balance] ∧
    AList.find? (revertEntry s' (.balance a o.balance)).objs a = some o := by
  intro s'
  have hs : s' = setObj (append s (.balance a o.balance)) a { o with balance := o.balance + d } := by
    show addBalance s a d = _
    simp [addBalance, getOrNew_cached s a o h, hd]
  refine ⟨by rw [hs]; rfl, ?_⟩
  rw [hs]
  simp only [revertEntry]
  rw [getObj_cached _ a _ (find_setObj_append s a _ _)]
  simp [setObj, AList.find?_set_self]

theorem C03_journal_inverse_nonce (s : S) (a : Nat) (o : Obj) (n : Nat) (h : AList.find? s.objs a = some o) :
    let s' := setNonce s a n
    s'.journal = s.journal ++ [.nonce a o.nonce] ∧
    AList.find? (revertEntry s' (.nonce a o.nonce)).objs a = some o := by
  intro s'
  have hs : s' = setObj (append s (.nonce a o.nonce)) a { o with nonce := n } := by
    show setNonce s a n = _
    simp [setNonce, getOrNew_cached s a o h]
  refine ⟨by rw [hs]; rfl, ?_⟩
  rw [hs]
  simp only [revertEntry]
  rw [getObj_cached _ a _ (find_setObj_append s a _ _)]
  simp [setObj, AList.find?_set_self]

/-- code: the hash comes back (the `dirtyCode` flag stays set, which only makes the commit rewrite the same code) -/
theorem C03_journal_inverse_code (s : S) (a : Nat) (o : Obj) (c : Nat) (h : AList.find? s.objs a = some o) :
    let s' := setCode s a c
    s'.journal = s.journal ++ [.code a o.codeHash] ∧
    (AList.find? (revertEntry s' (.code a o.codeHash)).objs a).map (fun x => (x.codeHash, x.balance, x.nonce, x.dirty, x.suicided))
      = some (o.codeHash, o.balance, o.nonce, o.dirty, o.suicided) := by
  intro s'
  have hs : s' = setObj (append s (.code a o.codeHash)) a { o with codeHash := c, dirtyCode := true } := by
    show setCode s a c = _
    simp [setCode, getOrNew_cached s a o h]
  refine ⟨by rw [hs]; rfl, ?_⟩
  rw [hs]
  simp only [revertEntry]
  rw [getObj_cached _ a _ (find_setObj_append s a _ _)]
  simp [setObj, AList.find?_set_self]

/-- self-destruct: flag and balance come back -/
theorem C03_journal_inverse_suicide (s : S) (a : Nat) (o : Obj) (h : AList.find? s.objs a = some o) :
    let s' := (suicide s a).1
    s'.journal = s.journal ++ [.suicide a o.suicided o.balance] ∧
    AList.find? (revertEntry s' (.suicide a o.suicided o.balance)).objs a = some o := by
  intro s'
  have hs : s' = setObj (append s (.suicide a o.suicided o.balance)) a { o with suicided := true, balance := 0 } := by
    show (suicide s a).1 = _
    simp [suicide, getObj_cached s a o h]
  refine ⟨by rw [hs]; rfl, ?_⟩
  rw [hs]
  simp only [revertEntry]
  rw [getObj_cached _ a _ (find_setObj_append s a _ _)]
  simp [setObj, AList.find?_set_self]

/-- storage: after reverting a slot write, the slot reads what it read before -/
theorem C03_journal_inverse_storage (s : S) (a k v : Nat) (o : Obj) (h : AList.find? s.objs a = some o)
    (hv : objState s a o k ≠ v) :
    let s' := setState s a k v
    s'.journal = s.journal ++ [.storage a k (objState s a o k)] ∧
    (∃ o', AList.find? (revertEntry s' (.storage a k (objState s a o k))).objs a = some o' ∧
        AList.find? o'.dirty k = some (objState s a o k)) := by
  intro s'
  have hs : s' = setObj (append s (.storage a k (objState s a o k))) a
      { (touchState s a o k) with dirty := AList.set (touchState s a o k).dirty k v } := by
    show setState s a k v = _
    simp [setState, getOrNew_cached s a o h, hv]
  refine ⟨by rw [hs]; rfl, ?_⟩
  rw [hs]
  simp only [revertEntry]
  rw [getObj_cached _ a _ (find_setObj_append s a _ _)]
  refine ⟨{ (touchState s a o k) with
              dirty := AList.set (AList.set (touchState s a o k).dirty k v) k (objState s a o k) }, ?_, ?_⟩
  · simp [setObj, AList.find?_set_self]
  · simp [AList.find?_set_self]

/-- **C03 (Nibiru's journal, sequences).** Any sequence of write calls on cached accounts is undone by reverting the journal to its
    former length: the StateDB is observationally what it was (see `Eqv`: balances, nonces, code hashes, self-destruct flags,
    current and committed value of every storage slot, refund counter, number of logs, access list). -/
theorem C03_journal_undoes_any_write_sequence {A : List Nat} (s : S) (hc : Cached A s) (ws : List WOp)
    (hw : ∀ w ∈ ws, ∀ a, w.acct = some a → a ∈ A) : Eqv A (revertTo (applyAll s ws) s.journal.length) s :=
  revertTo_restores s hc ws hw

/-- **C03 (Nibiru's journal, Snapshot / RevertToSnapshot).** After `Snapshot`, any sequence of write calls on cached accounts, and
    `RevertToSnapshot(id)`: the id is valid and the StateDB is observationally what it was at the snapshot — the behaviour the
    reference semantics has by construction (`C03_spec_revert_restores`). -/
theorem C03_snapshot_revert_restores {A : List Nat} (s : S) (hc : Cached A s) (hrev : ∀ r ∈ s.revisions, r.1 < s.nextRev)
    (ws : List WOp) (hw : ∀ w ∈ ws, ∀ a, w.acct = some a → a ∈ A) :
    ∃ s3, revertToSnapshot (applyAll (snapshot s).1 ws) (snapshot s).2 = some s3 ∧ Eqv A s3 s :=
  snapshot_revert_restores s hc hrev ws hw

/-- non-vacuity: a state with two cached accounts and a history that writes balance, storage, code, self-destructs, logs -/
example : ∃ s3, revertToSnapshot (applyAll (snapshot ({ objs := [(1, { balance := 5, nonce := 1 }), (2, { codeHash := 7 })] } : S)).1
      [.addBalance 1 3, .setState 2 0 9, .setCode 2 8, .suicide 1, .addLog, .addRefund 4800, .subRefund 100, .addSlot 2 0])
      (snapshot ({ objs := [(1, { balance := 5, nonce := 1 }), (2, { codeHash := 7 })] } : S)).2 = some s3 ∧
    Eqv [1, 2] s3 { objs := [(1, { balance := 5, nonce := 1 }), (2, { codeHash := 7 })] } :=
  C03_snapshot_revert_restores (A := [1, 2]) _ (by intro a ha; simp at ha; rcases ha with rfl | rfl <;> simp [AList.find?])
    (by simp) _ (by
      intro w hwm a ha
      simp only [List.mem_cons, List.mem_singleton, List.not_mem_nil, or_false] at hwm
      rcases hwm with rfl | rfl | rfl | rfl | rfl | rfl | rfl | rfl <;> simp [WOp.acct] at ha <;> simp [← ha])

/-- **C03 (partial: straight-line write sequences) — Nibiru's StateDB answers as go-ethereum's reference semantics does.** From
    related states (e.g. the start of a transaction over the same persisted data, `sim_init`), after ANY sequence of interpreter
    writes — AddBalance, SetNonce, SetCode, SetState, Suicide, AddLog, AddRefund, SubRefund, access-list additions — on any accounts
    (cached, lazily loaded, or created by the write), the two remain related: every account read and every storage read of the
    journaled implementation returns what the copy-on-snapshot specification returns, and the counters agree. -/
theorem C03_write_sequences_simulate_reference_partial (s : S) (g : GethSpec.G) (h : Sim s g) (ws : List WOp) :
    Sim (applyAll s ws) (GethSpec.runOps g (ws.map toSpec)) :=
  sim_applyAll ws s g h

/-- … spelled out for the reads the interpreter makes after the sequence -/
theorem C03_reads_agree_after_any_write_sequence_partial (s : S) (g : GethSpec.G) (h : Sim s g) (ws : List WOp) (a k : Nat) :
    (getState (applyAll s ws) a k).2 =
      (match GethSpec.obj? (GethSpec.runOps g (ws.map toSpec)) a with
        | some x => GethSpec.stateOf (GethSpec.runOps g (ws.map toSpec)) a x k
        | none => 0) ∧
    (applyAll s ws).refund = (GethSpec.runOps g (ws.map toSpec)).tx.refund ∧
    (applyAll s ws).logs = (GethSpec.runOps g (ws.map toSpec)).tx.logs :=
  ⟨(sim_getState _ _ (sim_applyAll ws s g h) a k).1, (sim_applyAll ws s g h).refund, (sim_applyAll ws s g h).logs⟩

/-- non-vacuity: a store with one contract (nonce 1, code 7, 5 unibi, slot 0 = 9) and the same persisted data on the reference
    side are related, so the two theorems above apply to every write sequence from there -/
example : Sim { txStore := { accts := [(1, { nonce := 1, codeHash := 7, balance := 5 })], storage := [((1, 0), 9)] } }
    { base := { accts := [(1, (1, 7, 5000000000000))], storage := [((1, 0), 9)] } } := by
  apply sim_init
  · intro a ha k
    by_cases h1 : a = 1
    · subst h1; simp [Store.acct, AList.find?] at ha
    · have : ((1, 0) : Nat × Nat) ≠ (a, k) := fun e => h1 (congrArg Prod.fst e).symm
      simp [Store.slot, AList.find?, this]
  · intro a
    by_cases h1 : a = 1
    · subst h1; simp [Store.acct, AList.find?, weiPerUnibi]
    · have : (1 : Nat) ≠ a := fun e => h1 e.symm
      simp [Store.acct, AList.find?, this]
  · intro a k
    rfl

/-- **C03 (partial) — CreateAccount.** Where the store holds no storage under the address (no code, no nonce: the only case in which
    `evm.create` calls it), `CreateAccount` keeps the journaled model and the reference related: the balance is carried over, nonce
    and code start at zero, every slot reads zero on both sides. -/
theorem C03_createAccount_simulates_reference_partial (s : S) (g : GethSpec.G) (h : Sim s g) (a : Nat)
    (hs : ∀ k, s.txStore.slot a k = 0) : Sim (createAccount s a) (GethSpec.apply g (.createAccount a)).1 :=
  sim_createAccount s g h a hs

/-- **C03 (partial) — a reverted call frame.** From related states, with the accounts the frame writes cached (the interpreter
    reads an account before it writes it) and well-formed snapshot ids on both sides: `Snapshot`, ANY sequence of writes,
    `RevertToSnapshot` succeeds on Nibiru's journal and on the reference, and the two are related again afterwards — so the next
    frame starts from related states too. -/
theorem C03_reverted_frame_simulates_reference_partial {A : List Nat} (s : S) (g : GethSpec.G) (h : Sim s g) (hc : Cached A s)
    (hrev : ∀ r ∈ s.revisions, r.1 < s.nextRev) (hg : GethSpec.IdsBelow g) (ws : List WOp)
    (hw : ∀ w ∈ ws, ∀ a, w.acct = some a → a ∈ A) :
    ∃ s3, revertToSnapshot (applyAll (snapshot s).1 ws) (snapshot s).2 = some s3 ∧
      (GethSpec.apply (GethSpec.runOps (GethSpec.apply g .snapshot).1 (ws.map toSpec)) (.revert g.next)).2 = "ok" ∧
      Sim s3 (GethSpec.apply (GethSpec.runOps (GethSpec.apply g .snapshot).1 (ws.map toSpec)) (.revert g.next)).1 := by
  obtain ⟨s3, h3, hs⟩ := sim_reverted_frame s g h hc hrev ws hw
  have hp : ∀ o ∈ ws.map toSpec, o.plain = true := by
    intro o ho
    obtain ⟨w, _, e⟩ := List.mem_map.mp ho
    rw [← e]; exact toSpec_plain w
  obtain ⟨r1, r2, r3, _⟩ := GethSpec.C03_spec_revert_restores g hg (ws.map toSpec) hp
  exact ⟨s3, h3, r1, sim_congr_ref s3 g _ r3 r2 hs⟩

/-! ### T1 (regenerated from x/evm/statedb/journal.go, statedb.go, state_object.go on every run) -/

/-- the Go type each constructor of the model's `Entry` stands for -/
def Entry.goType : Entry → String
  | .createObject _ => "createObjectChange"
  | .resetObject _ _ => "resetObjectChange"
  | .suicide _ _ _ => "suicideChange"
  | .balance _ _ => "balanceChange"
  | .nonce _ _ => "nonceChange"
  | .code _ _ => "codeChange"
  | .storage _ _ _ => "storageChange"
  | .refund _ => "refundChange"
  | .addLog => "addLogChange"
  | .alAddr _ => "accessListAddAccountChange"
  | .alSlot _ _ => "accessListAddSlotChange"
  | .precompile _ => "PrecompileCalled"

/-- one sample per constructor, in the order of the declarations in journal.go -/
def entrySamples : List Entry :=
  [.createObject 0, .resetObject 0 {}, .suicide 0 false 0, .balance 0 0, .nonce 0 0, .code 0 0, .storage 0 0 0, .refund 0, .addLog,
   .alAddr 0, .alSlot 0 0, .precompile {}]

/-- journal.go declares exactly the JournalChange types the model has constructors for, in this order, and each type's `Dirtied()`
    returns its account exactly where the model's `Entry.dirtied` does (COMPUTED from the model, not restated) -/
theorem fact_C03_journal_entry_types_match_model :
    Generated.journalEntryTypes.map (fun r => (r.1, r.2.1)) =
      entrySamples.map (fun e => (e.goType, if e.dirtied.isSome then "return:ch.account" else "return:nil")) := by decide

/-- the skeleton of every `Revert` (calls, assigned fields, conditions, in source order) is the one `revertEntry` was written from:
    createObject deletes the state object; resetObject puts the previous object back; suicide / balance / nonce / code / storage go
    through `getStateObject` and restore the journaled previous value (suicide: only when the object exists); refund and logs
    restore the counter; the access-list entries delete what was added; PrecompileCalled swaps the cache context for the snapshot -/
theorem fact_C03_journal_revert_skeletons :
    Generated.journalEntryTypes.map (fun r => r.2.2) =
      ["call:delete",
       "call:s.setStateObject",
       "assign:obj ; call:s.getStateObject ; if:obj != nil ; assign:obj.Suicided ; call:obj.setBalance",
       "call:s.getStateObject(*ch.account).setBalance ; call:s.getStateObject",
       "call:s.getStateObject(*ch.account).setNonce ; call:s.getStateObject",
       "call:s.getStateObject(*ch.account).setCode ; call:s.getStateObject ; call:common.BytesToHash",
       "call:s.getStateObject(*ch.account).setState ; call:s.getStateObject",
       "assign:s.refund",
       "assign:s.logs ; call:len",
       "call:s.accessList.DeleteAddress",
       "call:s.accessList.DeleteSlot",
       "assign:s.cacheCtx ; call:s.cacheCtx.WithMultiStore ; assign:s.writeToCommitCtxFromCacheCtx ; call:s.evmTxCtx.EventManager().EmitEvents ; call:s.evmTxCtx.EventManager ; call:ch.MultiStore.Write"] := by
  decide +kernel

/-- which mutation appends which entry, and that the entry is appended BEFORE the field is assigned (the journaled value is the
    previous one): the write calls of the model were written from exactly these sites -/
theorem fact_C03_journal_append_sites :
    Generated.journalAppendSites =
      ["StateDB.AddAddressToAccessList = append:accessListAddAccountChange",
       "StateDB.AddLog = append:addLogChange ; assign:log.TxHash ; assign:log.BlockHash ; assign:log.TxIndex ; assign:log.Index ; assign:s.logs",
       "StateDB.AddRefund = append:refundChange ; assign:s.refund",
       "StateDB.AddSlotToAccessList = append:accessListAddAccountChange ; append:accessListAddSlotChange",
       "StateDB.SavePrecompileCalledJournalChange = append:journalChange",
       "StateDB.SubRefund = append:refundChange ; assign:s.refund",
       "StateDB.Suicide = append:suicideChange ; assign:stateObject.Suicided ; assign:stateObject.account.BalanceWei",
       "StateDB.createObject = append:createObjectChange ; append:resetObjectChange",
       "stateObject.SetBalance = append:balanceChange",
       "stateObject.SetCode = append:codeChange",
       "stateObject.SetNonce = append:nonceChange",
       "stateObject.SetState = append:storageChange"] := by decide +kernel

end Nibiru.SDB
