/-
  C13 — Inflation mints exactly the scheduled amount and distributes all of it.
  Theorems about NibiruModel.Inflation (x/inflation/keeper/hooks.go, inflation.go, types/inflation_calculation.go).
-/
import NibiruModel.Inflation
import NibiruProofs.DecLemmas
namespace Nibiru.Inflation
open Nibiru.Dec

theorem proportion_eq (m p : Int) (hm : 0 ≤ m) (hp : 0 ≤ p) : proportion m p = (m * p) / prec := by
  unfold proportion truncateInt
  rw [mul_ofInt, Int.tdiv_eq_ediv_of_nonneg (Int.mul_nonneg hm hp)]

/-! ### distribution: everything minted is distributed, parts are non-negative and sum to the minted amount -/

/-- Positive-mint branch of the hook, stated on the allocation itself. -/
theorem C13_distribution_sums (m ps pc pr : Int) (hm : 0 < m) (hps : 0 ≤ ps) (hpc : 0 ≤ pc) (hpr : 0 ≤ pr)
    (hsum : ps + pr + pc = prec) :
    let st := proportion m ps
    let cm := proportion m pc
    let strat := m - st - cm
    0 ≤ st ∧ 0 ≤ cm ∧ 0 ≤ strat ∧ st + cm + strat = m ∧
    st = (m * ps) / prec ∧ cm = (m * pc) / prec := by
  intro st cm strat
  have hst : st = (m * ps) / prec := proportion_eq m ps (by omega) hps
  have hcm : cm = (m * pc) / prec := proportion_eq m pc (by omega) hpc
  have ha : 0 ≤ m * ps := Int.mul_nonneg (by omega) hps
  have hb : 0 ≤ m * pc := Int.mul_nonneg (by omega) hpc
  have hc : 0 ≤ m * pr := Int.mul_nonneg (by omega) hpr
  have hab : m * ps + m * pc + m * pr = m * prec := by
    rw [← hsum]; simp [Int.mul_add]; omega
  refine ⟨?_, ?_, ?_, ?_, hst, hcm⟩
  · rw [hst]; unfold prec; omega
  · rw [hcm]; unfold prec; omega
  · show 0 ≤ m - st - cm
    rw [hst, hcm]; unfold prec at *; omega
  · show st + cm + (m - st - cm) = m
    omega

theorem allocate_sums (p : Params) (m : Int) (hv : validParams p = true) :
    let a := allocate p 0 m
    a.2.staking + a.2.community + a.2.strategic = a.2.minted ∧ a.1 = 0 ∧
    0 ≤ a.2.staking ∧ 0 ≤ a.2.community ∧ 0 ≤ a.2.strategic ∧ 0 ≤ a.2.minted := by
  simp only [validParams, Bool.and_eq_true, decide_eq_true_eq] at hv
  obtain ⟨⟨⟨⟨⟨⟨_, _⟩, _⟩, hps⟩, hpc⟩, hpr⟩, hsum⟩ := hv
  unfold allocate
  by_cases hm : m > 0
  · obtain ⟨h1, h2, h3, h4, _, _⟩ := C13_distribution_sums m _ _ _ hm hps hpc hpr hsum
    simp only [hm, if_true]
    refine ⟨by omega, trivial, h1, h2, by omega, by omega⟩
  · simp [hm]

/-- On the hook: whenever something is minted, the three parts sum to it and the module account ends empty
    (it started empty: nothing else ever credits the inflation module account). -/
theorem C13_hook_distributes_all (s : State) (n : Nat) (hbal : s.moduleBal = 0)
    (hv : validParams s.params = true) :
    let r := afterEpochEnd s n
    r.2.staking + r.2.community + r.2.strategic = r.2.minted ∧ r.1.moduleBal = 0 ∧
    0 ≤ r.2.staking ∧ 0 ≤ r.2.community ∧ 0 ≤ r.2.strategic ∧ 0 ≤ r.2.minted := by
  unfold afterEpochEnd
  split
  · split <;> simp [hbal]
  · split
    · simp [hbal]
    · rw [hbal]; exact allocate_sums s.params _ hv

/-! ### the schedule -/

/-- the amount the hook mints when the stored period is `per` (0 when the provision is not positive) -/
def mintOf (p : Params) (per : Nat) : Int :=
  (allocate p 0 (truncateInt (provision { p with enabled := true } per))).2.minted

/-- the polynomial keeps the provision positive below MaxPeriod (hypothesis of the property) -/
def Positive (p : Params) : Prop := ∀ per, per < p.maxPeriod → 0 < provision { p with enabled := true } per

/-- Coherence of the counters with the number `n` of the last finished day-epoch; `n - skipped` is the number of enabled
    epochs processed so far. -/
structure Inv (s : State) (n : Nat) : Prop where
  epp_pos : 0 < s.params.epp
  en_started : s.params.enabled = true → s.params.started = true
  fresh : s.params.started = false → s.period = 0 ∧ s.skipped = n
  le : s.skipped ≤ n
  coh : s.period < s.params.maxPeriod → s.params.epp * s.period ≤ n - s.skipped ∧ n - s.skipped < s.params.epp * s.period + s.params.epp
  done : s.params.maxPeriod ≤ s.period → s.params.epp * s.params.maxPeriod ≤ n - s.skipped

theorem provision_enabled (p : Params) (h : p.enabled = true) (per : Nat) :
    provision p per = provision { p with enabled := true } per := by
  cases p; simp_all

theorem provision_ge_max (p : Params) (per : Nat) (h : p.maxPeriod ≤ per) : provision p per = 0 := by
  unfold provision; simp [h]

theorem allocate_minted_indep (p q : Params) (b c m : Int) : (allocate p b m).2.minted = (allocate q c m).2.minted := by
  unfold allocate; split <;> rfl

/-- the stored period is the scheduled one: ⌊(number of enabled epochs so far) / EpochsPerPeriod⌋ -/
theorem period_eq (s : State) (n : Nat) (inv : Inv s n) (h : s.period < s.params.maxPeriod) :
    s.period = (n - s.skipped) / s.params.epp := by
  obtain ⟨h1, h2⟩ := inv.coh h
  symm
  apply Nat.div_eq_of_lt_le
  · rw [Nat.mul_comm]; exact h1
  · rw [Nat.add_mul, Nat.one_mul, Nat.mul_comm]; exact h2

theorem rollover_iff (s : State) (n : Nat) (hle : s.skipped ≤ n) :
    rollover s (n + 1) = true ↔ s.params.epp * s.period + s.params.epp ≤ n + 1 - s.skipped := by
  unfold rollover
  simp only [decide_eq_true_eq]
  generalize s.params.epp * s.period = x
  omega

/-- disabled epochs: nothing is minted and the schedule does not advance -/
theorem C13_disabled_step (s : State) (n : Nat) (inv : Inv s n) (hen : s.params.enabled = false) :
    let r := afterEpochEnd s (n + 1)
    Inv r.1 (n + 1) ∧ r.1.params = s.params ∧ r.2.minted = 0 ∧ (n + 1) - r.1.skipped = n - s.skipped ∧
    r.1.period = s.period := by
  intro r
  have hle := inv.le
  cases hst : s.params.started
  · have hr : r = ({ s with skipped := n + 1 }, {}) := by
      simp [r, afterEpochEnd, hen, hst]
    obtain ⟨hp0, hsk⟩ := inv.fresh hst
    rw [hr]
    refine ⟨⟨inv.epp_pos, by simp [hen], by simp [hp0], by simp, ?_, ?_⟩, rfl, rfl, ?_, rfl⟩
    · intro _; simp [hp0]; exact inv.epp_pos
    · intro hmax; simp only at hmax ⊢
      have : s.params.maxPeriod = 0 := by omega
      simp [this]
    · simp [hsk]
  · have hr : r = ({ s with skipped := s.skipped + 1 }, {}) := by
      simp [r, afterEpochEnd, hen, hst]
    rw [hr]
    refine ⟨⟨inv.epp_pos, by simp [hen], by simp [hst], by simp; omega, ?_, ?_⟩, rfl, rfl, ?_, rfl⟩
    · intro h; have := inv.coh h; simp only at this ⊢; omega
    · intro h; have := inv.done h; simp only at this ⊢; omega
    · simp only; omega

/-- enabled epochs: exactly the scheduled amount for period ⌊(enabled epochs so far)/E⌋ is minted, and the counters stay coherent -/
theorem C13_enabled_step (s : State) (n : Nat) (inv : Inv s n) (hpos : Positive s.params) (hen : s.params.enabled = true) :
    let r := afterEpochEnd s (n + 1)
    Inv r.1 (n + 1) ∧ r.1.params = s.params ∧ r.1.skipped = s.skipped ∧
    r.2.minted = mintOf s.params ((n - s.skipped) / s.params.epp) := by
  intro r
  have hst := inv.en_started hen
  have hle := inv.le
  by_cases hmax : s.period < s.params.maxPeriod
  · have hper := period_eq s n inv hmax
    have hprov : ¬ (provision s.params s.period ≤ 0) := by
      have := hpos _ hmax
      rw [provision_enabled _ hen]; omega
    obtain ⟨c1, c2⟩ := inv.coh hmax
    have hr : r = ({ s with moduleBal := (allocate s.params s.moduleBal (truncateInt (provision s.params s.period))).1,
                            period := if rollover s (n + 1) then s.period + 1 else s.period },
                   (allocate s.params s.moduleBal (truncateInt (provision s.params s.period))).2) := by
      simp [r, afterEpochEnd, hen, hprov]
    have hro := rollover_iff s n hle
    rw [hr]
    refine ⟨⟨inv.epp_pos, inv.en_started, by simp [hst], by simp; omega, ?_, ?_⟩, rfl, rfl, ?_⟩
    · simp only
      cases hc : rollover s (n + 1)
      · have hc' : ¬ (s.params.epp * s.period + s.params.epp ≤ n + 1 - s.skipped) := fun h => by
          have := hro.mpr h; rw [hc] at this; cases this
        simp only [Bool.false_eq_true, if_false]; intro _; omega
      · have hc' := hro.mp hc
        simp only [if_true]; intro _
        rw [Nat.mul_add, Nat.mul_one]; omega
    · simp only
      cases hc : rollover s (n + 1)
      · simp only [Bool.false_eq_true, if_false]; intro hm; omega
      · have hc' := hro.mp hc
        simp only [if_true]; intro hm
        have : s.params.maxPeriod = s.period + 1 := by omega
        rw [this, Nat.mul_add, Nat.mul_one]; omega
    · simp only [mintOf]
      rw [← hper, ← provision_enabled _ hen]
      exact allocate_minted_indep _ _ _ _ _
  · -- schedule finished: provision is zero, nothing happens
    have hmax' : s.params.maxPeriod ≤ s.period := by omega
    have hz : provision s.params s.period = 0 := provision_ge_max _ _ hmax'
    have hr : r = (s, {}) := by
      simp [r, afterEpochEnd, hen, hz]
    have hd := inv.done hmax'
    have hq : s.params.maxPeriod ≤ (n - s.skipped) / s.params.epp := by
      apply (Nat.le_div_iff_mul_le inv.epp_pos).mpr
      rw [Nat.mul_comm]; exact hd
    rw [hr]
    dsimp only
    refine ⟨⟨inv.epp_pos, inv.en_started, ?_, by omega, ?_, ?_⟩, rfl, rfl, ?_⟩
    · intro h; rw [hst] at h; cases h
    · intro h; omega
    · intro _; omega
    · have hz' := provision_ge_max { s.params with enabled := true } _ hq
      simp only [mintOf, hz']; simp [allocate, truncateInt]

/-! ### histories: epochs interleaved with toggles and parameter edits -/

inductive Op where
  | epoch
  | toggle (en : Bool)
  /-- an edit that keeps EpochsPerPeriod and MaxPeriod (fixed per history) -/
  | edit (factors : List Int) (ps pc pr : Int) (ppy : Nat)

def applyEdit (s : State) (factors : List Int) (ps pc pr : Int) (ppy : Nat) : State :=
  { s with params := { s.params with factors := factors, pStaking := ps, pCommunity := pc, pStrategic := pr, ppy := ppy } }

/-- one op on (state, last finished epoch number, enabled epochs so far); for an epoch op also the pair
    (minted by the model of the code, amount scheduled by the property) -/
def stepOp (s : State) (n g : Nat) : Op → (State × Nat × Nat) × Option (Int × Int)
  | .epoch =>
    let r := afterEpochEnd s (n + 1)
    if s.params.enabled then ((r.1, n + 1, g + 1), some (r.2.minted, mintOf s.params (g / s.params.epp)))
    else ((r.1, n + 1, g), some (r.2.minted, 0))
  | .toggle en => ((toggle s en, n, g), none)
  | .edit f a b c y => ((applyEdit s f a b c y, n, g), none)

def runOps (s : State) (n g : Nat) : List Op → List (Int × Int)
  | [] => []
  | op :: ops =>
    let r := stepOp s n g op
    (match r.2 with | some x => [x] | none => []) ++ runOps r.1.1 r.1.2.1 r.1.2.2 ops

/-- every state of the history has a provision that is positive below MaxPeriod (the property's hypothesis on edits) -/
def AllPositive (s : State) (n g : Nat) : List Op → Prop
  | [] => True
  | op :: ops => Positive s.params ∧ AllPositive (stepOp s n g op).1.1 (stepOp s n g op).1.2.1 (stepOp s n g op).1.2.2 ops

theorem Positive_toggle (s : State) (en : Bool) (h : Positive s.params) : Positive (toggle s en).params := by
  intro per hper; exact h per hper

theorem Inv_toggle (s : State) (n : Nat) (en : Bool) (inv : Inv s n) : Inv (toggle s en) n := by
  refine ⟨inv.epp_pos, ?_, ?_, inv.le, inv.coh, inv.done⟩
  · intro h; simp only [toggle] at h ⊢; simp [h]
  · intro h; simp only [toggle, Bool.or_eq_false_iff] at h; exact inv.fresh h.1

theorem Inv_edit (s : State) (n : Nat) (f : List Int) (a b c : Int) (y : Nat) (inv : Inv s n) :
    Inv (applyEdit s f a b c y) n :=
  ⟨inv.epp_pos, inv.en_started, inv.fresh, inv.le, inv.coh, inv.done⟩

/-- **C13 schedule over histories.** From any coherent start (`g = n - skipped` enabled epochs so far), through any
    interleaving of day-epoch ends, toggles and parameter edits that keep EpochsPerPeriod/MaxPeriod and positivity,
    every epoch mints exactly what the schedule says: `mintOf params ⌊g/E⌋` for the (g+1)-th enabled epoch — which is 0
    once ⌊g/E⌋ ≥ MaxPeriod — and 0 for disabled epochs, which do not advance `g`. -/
theorem C13_mint_schedule (ops : List Op) (s : State) (n g : Nat) (inv : Inv s n) (hg : g = n - s.skipped)
    (hpos : AllPositive s n g ops) :
    ∀ x ∈ runOps s n g ops, x.1 = x.2 := by
  induction ops generalizing s n g with
  | nil => intro x hx; simp [runOps] at hx
  | cons op ops ih =>
    obtain ⟨hp, hrest⟩ := hpos
    intro x hx
    simp only [runOps, List.mem_append] at hx
    cases op with
    | toggle en =>
      rcases hx with hx | hx
      · simp [stepOp] at hx
      · exact ih _ _ _ (Inv_toggle s n en inv) (by simpa [stepOp, toggle] using hg) hrest x hx
    | edit f a b c y =>
      rcases hx with hx | hx
      · simp [stepOp] at hx
      · exact ih _ _ _ (Inv_edit s n f a b c y inv) (by simpa [stepOp, applyEdit] using hg) hrest x hx
    | epoch =>
      cases hen : s.params.enabled
      · obtain ⟨i1, _, i3, i4, _⟩ := C13_disabled_step s n inv hen
        rcases hx with hx | hx
        · simp [stepOp, hen] at hx; subst hx; exact i3
        · refine ih _ _ _ ?_ ?_ hrest x hx
          · simpa [stepOp, hen] using i1
          · simp only [stepOp, hen]; simp only [Bool.false_eq_true, if_false]; omega
      · obtain ⟨i1, _, i3, i4⟩ := C13_enabled_step s n inv hp hen
        have hle := inv.le
        rcases hx with hx | hx
        · simp [stepOp, hen] at hx; subst hx; simp only; rw [hg]; exact i4
        · refine ih _ _ _ ?_ ?_ hrest x hx
          · simpa [stepOp, hen] using i1
          · simp only [stepOp, hen]; simp only [if_true]; rw [i3]; omega

/-- the default genesis (never started, all counters 0, epoch number 0) is coherent -/
theorem C13_default_genesis_coherent (p : Params) (hE : 0 < p.epp) (hen : p.enabled = false) (hst : p.started = false) :
    Inv { params := p, period := 0, skipped := 0 } 0 :=
  ⟨hE, by simp [hen], fun _ => ⟨rfl, rfl⟩, Nat.le_refl _, fun _ => by simp; exact hE, fun h => by simp at h ⊢; simp [h]⟩

/-- non-vacuity and a concrete schedule: E = 2, MaxPeriod = 2, constant polynomial 5 (5·10^6 per period → 2 500 000 per epoch);
    disabled epochs in between do not advance it; after 4 enabled epochs nothing is minted -/
def exParams : Params :=
  { enabled := false, started := false, epp := 2, maxPeriod := 2, ppy := 12, factors := [5 * prec],
    pStaking := 250000000000000000, pCommunity := 250000000000000000, pStrategic := 500000000000000000 }

example : runOps { params := exParams, period := 0, skipped := 0 } 0 0
    [.epoch, .toggle true, .epoch, .epoch, .toggle false, .epoch, .toggle true, .epoch, .epoch, .epoch]
    = [(0, 0), (2500000, 2500000), (2500000, 2500000), (0, 0), (2500000, 2500000), (2500000, 2500000), (0, 0)] := by
  decide

/-- a genesis accepted by validation but with incoherent counters (period 1 although no enabled epoch has happened) mints
    according to the stored period, not the schedule: outside the property's domain (documented, DESIGN §7 C13). -/
theorem C13_incoherent_genesis_witness :
    ∃ s : State, ¬ Inv s 0 ∧ (afterEpochEnd s 1).2.minted ≠ mintOf s.params 0 := by
  refine ⟨{ params := { exParams with enabled := true, started := true, factors := [1 * prec, 1 * prec] }, period := 1, skipped := 0 }, ?_, by decide⟩
  intro h; have := h.coh (by decide); simp [exParams] at this

end Nibiru.Inflation
