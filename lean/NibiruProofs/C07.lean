/-
  C07 — Signed EVM transactions execute at most once, in nonce order, on this chain.
  Theorems about NibiruModel.EvmTx (EVM ante chain + EthereumTx message server + baseapp's ante/exec split).
-/
import NibiruProofs.EvmTxLemmas
import Generated.Facts
namespace Nibiru.EvmTx

/-- **Sequence +1 per accepted message, whether or not execution succeeds.** When a tx is admitted by the ante handler, every
    signer's sequence ends exactly `number of its messages in the tx` higher — if all messages execute (`ok`, including VM
    reverts) and also if the execution fails and is discarded (`execFailed`). A rejected tx changes nothing. -/
theorem C07_seq_plus_one_per_accepted_msg (s : State) (ms : List Msg) (a : String) :
    ((deliver s ms).2 = .rejected → (deliver s ms).1 = s) ∧
    ((deliver s ms).2 ≠ .rejected → getSeq (deliver s ms).1 a = getSeq s a + countOf a ms) := by
  cases ha : ante s ms with
  | none => rw [deliver_rejected s ms ha]; simp
  | some s1 =>
    obtain ⟨hn, hseq, _, _⟩ := ante_spec s s1 ms ha
    cases hx : execMsgs s1 ms with
    | none => rw [deliver_failed s s1 ms ha hx]; simp [hseq]
    | some s2 =>
      have := (execMsgs_seq (getSeq s) s1 s2 ms hn (fun a => Or.inl (hseq a)) hx).1 a
      rw [deliver_ok s s1 s2 ms ha hx]; simp [this]

/-- **Acceptance needs nonce = sequence** (and a signature that recovers under this chain's id): the nonces of an admitted tx are
    the consecutive sequence numbers of their senders — in particular a single message needs `nonce = sequence`; a wrong-chain
    or malformed signature is rejected. -/
theorem C07_accept_iff_nonce_eq_seq (s : State) (ms : List Msg) (h : (deliver s ms).2 ≠ .rejected) :
    NoncesFrom (getSeq s) ms ∧ ∀ m ∈ ms, m.sigOk = true := by
  cases ha : ante s ms with
  | none => rw [deliver_rejected s ms ha] at h; simp at h
  | some s1 =>
    obtain ⟨hn, _, _, hsig⟩ := ante_spec s s1 ms ha
    exact ⟨hn, hsig⟩

theorem C07_single_message (s : State) (m : Msg) (h : (deliver s [m]).2 ≠ .rejected) :
    m.nonce = getSeq s m.sender ∧ m.sigOk = true := by
  obtain ⟨hn, hs⟩ := C07_accept_iff_nonce_eq_seq s [m] h
  exact ⟨hn.1, hs m (List.mem_cons_self)⟩

/-- the signer's sequence as the `i`-th message of the transaction finds it: the stored sequence plus the number of earlier
    messages of the same signer -/
theorem noncesFrom_get (f : String → Nat) (ms : List Msg) (h : NoncesFrom f ms) (i : Nat) (m : Msg) (hi : ms[i]? = some m) :
    m.nonce = f m.sender + countOf m.sender (ms.take i) := by
  induction ms generalizing f i with
  | nil => simp at hi
  | cons x xs ih =>
    cases i with
    | zero =>
      simp only [List.getElem?_cons_zero, Option.some.injEq] at hi
      subst hi
      simp [h.1]
    | succ j =>
      simp only [List.getElem?_cons_succ] at hi
      have := ih (bump f x.sender) h.2 j hi
      rw [this, List.take_succ_cons, countOf_cons]
      unfold bump
      by_cases hx : x.sender = m.sender
      · simp [hx]; omega
      · have hx' : ¬ m.sender = x.sender := fun e => hx e.symm
        simp [hx, hx']

/-- **Contracts are created at the address derived from the signer and the transaction's nonce.** In an admitted transaction every
    contract-creation message is deployed at `CreateAddress(signer, n)` (`deployments`), where `n` — the message's nonce — is the
    signer's account sequence at the moment that message was admitted: the stored sequence plus the number of earlier messages of
    that signer in the same transaction. -/
theorem C07_created_at_signer_and_admission_sequence (s : State) (ms : List Msg) (h : (deliver s ms).2 ≠ .rejected)
    (i : Nat) (m : Msg) (hi : ms[i]? = some m) (hk : m.kind = .create) :
    (m.sender, m.nonce) ∈ deployments ms ∧ m.nonce = getSeq s m.sender + countOf m.sender (ms.take i) := by
  refine ⟨?_, noncesFrom_get (getSeq s) ms (C07_accept_iff_nonce_eq_seq s ms h).1 i m hi⟩
  unfold deployments
  refine List.mem_map.mpr ⟨m, List.mem_filter.mpr ⟨List.mem_of_getElem? hi, by simp [hk]⟩, rfl⟩

/-- **Sequences never decrease** across transactions. -/
theorem C07_seq_monotone (s : State) (ms : List Msg) (a : String) : getSeq s a ≤ getSeq (deliver s ms).1 a := by
  cases hr : (deliver s ms).2 with
  | rejected => rw [(C07_seq_plus_one_per_accepted_msg s ms a).1 hr]; exact Nat.le_refl _
  | execFailed => rw [(C07_seq_plus_one_per_accepted_msg s ms a).2 (by rw [hr]; simp)]; omega
  | ok => rw [(C07_seq_plus_one_per_accepted_msg s ms a).2 (by rw [hr]; simp)]; omega

/-- the invariant behind "at most once": every message that took effect has a nonce below its sender's sequence, and no
    (sender, nonce) is recorded twice -/
def Inv (s : State) : Prop := (∀ p ∈ s.executed, p.2 < getSeq s p.1) ∧ s.executed.Nodup

theorem Inv_deliver (s : State) (ms : List Msg) (h : Inv s) : Inv (deliver s ms).1 := by
  obtain ⟨h1, h2⟩ := h
  cases ha : ante s ms with
  | none => rw [deliver_rejected s ms ha]; exact ⟨h1, h2⟩
  | some s1 =>
    obtain ⟨hn, hseq, hex, _⟩ := ante_spec s s1 ms ha
    cases hx : execMsgs s1 ms with
    | none =>
      rw [deliver_failed s s1 ms ha hx]
      refine ⟨fun p hp => ?_, by simp only; rw [hex]; exact h2⟩
      simp only at hp ⊢
      rw [hex] at hp
      have := h1 p hp
      rw [hseq]; omega
    | some s2 =>
      rw [deliver_ok s s1 s2 ms ha hx]
      obtain ⟨q1, q2⟩ := execMsgs_seq (getSeq s) s1 s2 ms hn (fun a => Or.inl (hseq a)) hx
      obtain ⟨f1, f2⟩ := nonces_fresh (getSeq s) s.executed ms hn h1 h2
      rw [hex] at q2
      refine ⟨fun p hp => ?_, by simp only; rw [q2]; exact f1⟩
      simp only at hp ⊢
      rw [q2] at hp
      rw [q1]; exact f2 p hp

def runTxs (s : State) : List (List Msg) → State
  | [] => s
  | tx :: txs => runTxs (deliver s tx).1 txs

/-- **At most once.** Over every submission history — duplicates, gaps, reordering, several messages per tx, failing and
    reverting executions, resubmission in later blocks — no (signer, nonce) takes effect twice. -/
theorem C07_at_most_once (txs : List (List Msg)) (s : State) (h : Inv s) : (runTxs s txs).executed.Nodup := by
  induction txs generalizing s with
  | nil => exact h.2
  | cons tx txs ih => exact ih _ (Inv_deliver s tx h)

theorem C07_initial_state_inv (s : State) (h : s.executed = []) : Inv s := by
  unfold Inv; rw [h]; exact ⟨fun _ hp => absurd hp (List.not_mem_nil), List.nodup_nil⟩

/-- a resubmitted tx is rejected once its first message's nonce has been consumed -/
theorem C07_replay_rejected (s : State) (m : Msg) (ms : List Msg) (h : m.nonce < getSeq s m.sender) :
    (deliver s (m :: ms)).2 = .rejected := by
  cases hr : (deliver s (m :: ms)).2 with
  | rejected => rfl
  | execFailed =>
    have := (C07_accept_iff_nonce_eq_seq s (m :: ms) (by rw [hr]; simp)).1.1; omega
  | ok =>
    have := (C07_accept_iff_nonce_eq_seq s (m :: ms) (by rw [hr]; simp)).1.1; omega

/-- several messages of one sender in one tx end at `seq + k`, although the message server rewrites the nonce (non-vacuity) -/
example :
    let s : State := { seq := [("a", 5)], bal := [("a", 1000000)], collector := 0 }
    let mk := fun (n : Nat) => ({ sender := "a", nonce := n, gasLimit := 21000, tip := none, price := 1000000000000, value := 0,
                                   sigOk := true, kind := .transfer, gasUsed := 21000, to := "b" } : Msg)
    (deliver s [mk 5, mk 6, mk 7]).2 = .ok ∧ getSeq (deliver s [mk 5, mk 6, mk 7]).1 "a" = 8 ∧
    (deliver s [mk 5, mk 7]).2 = .rejected ∧ (deliver (deliver s [mk 5]).1 [mk 5]).2 = .rejected := by
  decide

/-! ### T1: the EVM ante chain (regenerated from app/evmante/evmante_handler.go on every run) -/

theorem fact_C07_evm_ante_chain : Generated.anteChainEVM =
    ["NewEthSetUpContextDecorator", "NewMempoolGasPriceDecorator", "NewEthValidateBasicDecorator", "NewEthSigVerificationDecorator",
     "NewAnteDecVerifyEthAcc", "CanTransferDecorator", "NewAnteDecEthGasConsume", "NewAnteDecEthIncrementSenderSequence",
     "ante.AnteDecoratorGasWanted", "NewEthEmitEventDecorator"] := by decide

/-- the interpreter runs between the two `SetNonce` calls of `ApplyEvmMsg`: it sees the message's own nonce -/
theorem fact_C07_nonce_pinned_before_the_interpreter_runs :
    Generated.applyEvmMsgNonceAndVm =
      ["SetNonce(msg.From(), msg.Nonce())", "Create", "Call", "SetNonce(msg.From(), msg.Nonce() + 1)"] := by decide +kernel

/-- the one nonce comparison of the EVM ante chain: a message is refused iff its nonce DIFFERS from the signer's sequence as it
    stands after the bumps of the messages before it (what `C07_accept_iff_nonce_eq_seq` is stated over); no other decorator
    of the chain looks at a nonce -/
theorem fact_C07_single_nonce_comparison :
    Generated.evmAnteNonceConditions = ["AnteDecEthIncrementSenderSequence.AnteHandle: txData.GetNonce() != nonce"] := by decide

end Nibiru.EvmTx
