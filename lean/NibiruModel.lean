import NibiruModel.Prelude
import NibiruModel.Epochs
