/-
  NibiruModel.TokenFactory — x/tokenfactory msg server (keeper/msg_server.go, keeper/store.go, types/state.go, types/tx_msgs.go)
  at the level at which the chain executes a message: `ValidateBasic`, then the handler on a branched store that is discarded
  on error (so a handler that writes and then fails changes nothing).
  Addresses are the bech32 strings of the messages; `valid` lists the strings that decode as addresses, `blocked` the module
  accounts the bank refuses to credit/debit.
-/
import NibiruModel.Prelude
namespace Nibiru.TF

structure State where
  valid   : List String := []
  blocked : List String := []
  admins  : List (String × String) := []          -- denomAdmins: denom → admin
  bmeta    : List String := []                     -- denoms with bank metadata (existence test of `HasDenom`)
  bal     : List ((String × String) × Int) := []  -- (account, denom) → balance
  supply  : List (String × Int) := []
deriving Repr, Inhabited

inductive Err where
  | invalid | exists | notfound | unauthorized | blocked | insufficient
deriving Repr, DecidableEq

def Err.render : Err → String
  | .invalid => "invalid" | .exists => "exists" | .notfound => "notfound" | .unauthorized => "unauthorized"
  | .blocked => "blocked" | .insufficient => "insufficient"

/-- account identity of an address string: bech32 is case-insensitive as a whole -/
def canon (a : String) : String := a.toLower

def getBal (s : State) (a d : String) : Int := (AList.find? s.bal (canon a, d)).getD 0
def getSupply (s : State) (d : String) : Int := (AList.find? s.supply d).getD 0
def setBal (s : State) (a d : String) (v : Int) : State := { s with bal := AList.set s.bal (canon a, d) v }
def setSupply (s : State) (d : String) (v : Int) : State := { s with supply := AList.set s.supply d v }

/-- `DenomStr.ToStruct` on the characters of the denom: exactly three '/'-separated sections, "tf", non-empty creator and subdenom -/
def toStruct (denom : List Char) : Option (List Char × List Char) :=
  match splitChar '/' denom with
  | [p0, p1, p2] => if p0 = ['t', 'f'] && !p1.isEmpty && !p2.isEmpty then some (p1, p2) else none
  | _ => none

def denomOf (creator sub : List Char) : List Char := ['t', 'f', '/'] ++ creator ++ ('/' :: sub)

def validShape (denom : String) : Bool := (toStruct denom.toList).isSome

/-- `validateCoin`: valid denom, non-negative and non-zero amount -/
def validCoin (denom : String) (amt : Int) : Bool := validDenom denom && decide (amt > 0)

/-! Every handler is `guard` (the checks, in the order the code performs them, giving the error class) + `effect`. -/

def run (s : State) (guard : Option Err) (effect : State) : State × Option Err :=
  match guard with
  | some e => (s, some e)
  | none => (effect, none)

def firstErr : List (Bool × Err) → Option Err
  | [] => none
  | (bad, e) :: rest => if bad then some e else firstErr rest

def tfDenom (sender sub : String) : String := String.ofList (denomOf sender.toList sub.toList)

/-- `CreateDenom` -/
def createGuard (s : State) (sender sub : String) : Option Err :=
  firstErr [(!s.valid.contains sender, .invalid), (!validShape (tfDenom sender sub), .invalid),
            (s.bmeta.contains (tfDenom sender sub), .exists)]
def createEffect (s : State) (sender sub : String) : State :=
  { s with admins := AList.set s.admins (tfDenom sender sub) sender, bmeta := tfDenom sender sub :: s.bmeta }
def create (s : State) (sender sub : String) := run s (createGuard s sender sub) (createEffect s sender sub)

def adminIs (s : State) (denom sender : String) : Bool := AList.find? s.admins denom == some sender

/-- `ChangeAdmin` -/
def changeAdminGuard (s : State) (sender denom newAdmin : String) : Option Err :=
  firstErr [(!s.valid.contains sender || !s.valid.contains newAdmin || !validShape denom, .invalid),
            ((AList.find? s.admins denom).isNone, .notfound), (!adminIs s denom sender, .unauthorized)]
def changeAdminEffect (s : State) (denom newAdmin : String) : State :=
  { s with admins := AList.set s.admins denom newAdmin }
def changeAdmin (s : State) (sender denom newAdmin : String) :=
  run s (changeAdminGuard s sender denom newAdmin) (changeAdminEffect s denom newAdmin)

def target (sender other : String) : String := if other = "" then sender else other

/-- `Mint` -/
def mintGuard (s : State) (sender denom : String) (amt : Int) (mintTo : String) : Option Err :=
  firstErr [(!s.valid.contains sender || !validCoin denom amt || !validShape denom || (mintTo ≠ "" && !s.valid.contains mintTo), .invalid),
            ((AList.find? s.admins denom).isNone, .notfound), (!adminIs s denom sender, .unauthorized),
            (s.blocked.contains (canon (target sender mintTo)), .blocked)]
def credit (s : State) (a denom : String) (amt : Int) : State :=
  setBal (setSupply s denom (getSupply s denom + amt)) a denom (getBal s a denom + amt)
def mint (s : State) (sender denom : String) (amt : Int) (mintTo : String) :=
  run s (mintGuard s sender denom amt mintTo) (credit s (target sender mintTo) denom amt)

/-- `Burn` -/
def burnGuard (s : State) (sender denom : String) (amt : Int) (burnFrom : String) : Option Err :=
  firstErr [(!s.valid.contains sender || !validCoin denom amt || !validShape denom || (burnFrom ≠ "" && !s.valid.contains burnFrom), .invalid),
            ((AList.find? s.admins denom).isNone, .notfound), (!adminIs s denom sender, .unauthorized),
            (s.blocked.contains (canon (target sender burnFrom)), .blocked),
            (decide (getBal s (target sender burnFrom) denom < amt), .insufficient)]
def burn (s : State) (sender denom : String) (amt : Int) (burnFrom : String) :=
  run s (burnGuard s sender denom amt burnFrom) (credit s (target sender burnFrom) denom (-amt))

/-- `BurnNative`: any holder burns its own coins of any denom -/
def burnNativeGuard (s : State) (sender denom : String) (amt : Int) : Option Err :=
  firstErr [(!s.valid.contains sender || !validCoin denom amt, .invalid), (decide (getBal s sender denom < amt), .insufficient)]
def burnNative (s : State) (sender denom : String) (amt : Int) :=
  run s (burnNativeGuard s sender denom amt) (credit s sender denom (-amt))

/-- `SetDenomMetadata` (metadata content is not modelled; only who may do it) -/
def setMetaGuard (s : State) (sender base : String) : Option Err :=
  firstErr [(!s.valid.contains sender || !validDenom base, .invalid), ((AList.find? s.admins base).isNone, .notfound),
            (!adminIs s base sender, .unauthorized)]
def setMetaEffect (s : State) (base : String) : State :=
  { s with bmeta := if s.bmeta.contains base then s.bmeta else base :: s.bmeta }
def setMeta (s : State) (sender base : String) := run s (setMetaGuard s sender base) (setMetaEffect s base)

inductive Op where
  | create (sender sub : String)
  | changeAdmin (sender denom newAdmin : String)
  | mint (sender denom : String) (amt : Int) (mintTo : String)
  | burn (sender denom : String) (amt : Int) (burnFrom : String)
  | burnNative (sender denom : String) (amt : Int)
  | setMeta (sender base : String)
deriving Repr

def apply (s : State) : Op → State × Option Err
  | .create a b => create s a b
  | .changeAdmin a b c => changeAdmin s a b c
  | .mint a b c d => mint s a b c d
  | .burn a b c d => burn s a b c d
  | .burnNative a b c => burnNative s a b c
  | .setMeta a b => setMeta s a b

/-! ### line protocol.  `_` encodes the empty string. -/

def tok (s : String) : String := if s = "_" then "" else s

structure View where
  accts  : List String := []
  denoms : List String := []
deriving Inhabited

def render (v : View) (s : State) : String :=
  let sup := renderItems "," (v.denoms.map (fun d => s!"{d}={getSupply s d}"))
  let bal := renderItems "," ((v.accts.flatMap (fun a => v.denoms.map (fun d => (a, d)))).filterMap (fun p =>
    let b := getBal s p.1 p.2; if b = 0 then none else some s!"{p.1}|{p.2}={b}"))
  let adm := renderItems "," (v.denoms.filterMap (fun d => (AList.find? s.admins d).map (fun a => s!"{d}={a}")))
  s!"S={sup} B={bal} A={adm}"

def parseBal (s : String) : List ((String × String) × Int) :=
  (parseItems "," s).filterMap (fun it =>
    match it.splitOn "=" with
    | [k, v] => match k.splitOn "|", parseInt? v with
      | [a, d], some n => some ((a, d), n)
      | _, _ => none
    | _ => none)

def parseSup (s : String) : List (String × Int) :=
  (parseItems "," s).filterMap (fun it =>
    match it.splitOn "=" with
    | [k, v] => (parseInt? v).map (fun n => (k, n))
    | _ => none)

def step (st : State × View) (args : List String) : (State × View) × String :=
  let (s, v) := st
  let fin := fun (r : State × Option Err) => ((r.1, v), (match r.2 with | none => "ok" | some e => e.render) ++ " " ++ render v r.1)
  match args with
  | "reset" :: rest =>
    let sec := fun k => (section? rest k).getD "-"
    let s' : State := { valid := parseItems "," (sec "VALID"), blocked := parseItems "," (sec "BLOCKED"),
                        bal := parseBal (sec "BAL"), supply := parseSup (sec "SUP"), bmeta := parseItems "," (sec "META") }
    let v' : View := { accts := parseItems "," (sec "ACCTS"), denoms := parseItems "," (sec "DENOMS") }
    ((s', v'), "ok " ++ render v' s')
  | ["create", a, b] => fin (create s (tok a) (tok b))
  | ["changeAdmin", a, b, c] => fin (changeAdmin s (tok a) (tok b) (tok c))
  | ["mint", a, b, c, d] => match parseInt? c with | some n => fin (mint s (tok a) (tok b) n (tok d)) | none => (st, "bad-op")
  | ["burn", a, b, c, d] => match parseInt? c with | some n => fin (burn s (tok a) (tok b) n (tok d)) | none => (st, "bad-op")
  | ["burnNative", a, b, c] => match parseInt? c with | some n => fin (burnNative s (tok a) (tok b) n) | none => (st, "bad-op")
  | ["setMeta", a, b] => fin (setMeta s (tok a) (tok b))
  | _ => (st, "bad-op")

end Nibiru.TF
