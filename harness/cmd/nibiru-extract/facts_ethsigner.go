package main

import (
	"fmt"
	"go/ast"
	"sort"
)

// ethTxSignerReadsOfFrom: every READ of the unauthenticated wire field `From` (msg.From on the right-hand side, GetFrom())
// inside MsgEthereumTx.GetSigners / GetSender.  The message-tree model takes the signer of a MsgEthereumTx to be the address
// recovered from its signature; any read of `From` on that path breaks the assumption.
func init() {
	extractors["ethsigner"] = func(repo string, out *leanFile, js map[string]any) error {
		var reads []string
		for _, fn := range []string{"MsgEthereumTx.GetSigners", "MsgEthereumTx.GetSender"} {
			fd := findFunc(repo, "x/evm", fn)
			if fd == nil {
				return fmt.Errorf("%s not found", fn)
			}
			lhs := map[ast.Expr]bool{}
			ast.Inspect(fd.Body, func(n ast.Node) bool {
				if as, ok := n.(*ast.AssignStmt); ok {
					for _, l := range as.Lhs {
						lhs[l] = true
					}
				}
				return true
			})
			ast.Inspect(fd.Body, func(n ast.Node) bool {
				switch v := n.(type) {
				case *ast.SelectorExpr:
					if v.Sel.Name == "From" && !lhs[v] {
						reads = append(reads, fn+":"+exprString(v))
					}
					if v.Sel.Name == "GetFrom" {
						reads = append(reads, fn+":"+exprString(v)+"()")
					}
				}
				return true
			})
		}
		sort.Strings(reads)
		out.f("def ethTxSignerReadsOfFrom : List String := %s\n", leanStrList(reads))
		// what GetSigners returns
		var rets []string
		fd := findFunc(repo, "x/evm", "MsgEthereumTx.GetSigners")
		ast.Inspect(fd.Body, func(n ast.Node) bool {
			if r, ok := n.(*ast.ReturnStmt); ok && len(r.Results) == 1 {
				rets = append(rets, exprString(r.Results[0]))
			}
			return true
		})
		out.f("def ethTxGetSignersReturns : List String := %s\n", leanStrList(rets))
		return nil
	}
}
