package main

import (
	"encoding/base64"
	"encoding/json"
	"fmt"
	"math/big"
	"os"
	"strings"
	"time"

	sdkmath "cosmossdk.io/math"
	abci "github.com/cometbft/cometbft/abci/types"
	wasmtypes "github.com/CosmWasm/wasmd/x/wasm/types"
	codectypes "github.com/cosmos/cosmos-sdk/codec/types"
	"github.com/cosmos/cosmos-sdk/crypto/keys/ed25519"
	"github.com/cosmos/cosmos-sdk/crypto/keys/secp256k1"
	cryptotypes "github.com/cosmos/cosmos-sdk/crypto/types"
	sdk "github.com/cosmos/cosmos-sdk/types"
	authtypes "github.com/cosmos/cosmos-sdk/x/auth/types"
	"github.com/cosmos/cosmos-sdk/x/authz"
	banktypes "github.com/cosmos/cosmos-sdk/x/bank/types"
	govtypes "github.com/cosmos/cosmos-sdk/x/gov/types"
	govv1 "github.com/cosmos/cosmos-sdk/x/gov/types/v1"
	stakingtypes "github.com/cosmos/cosmos-sdk/x/staking/types"
	gethcommon "github.com/ethereum/go-ethereum/common"

	"github.com/NibiruChain/nibiru/v2/app"
	"github.com/NibiruChain/nibiru/v2/x/common/testutil/testapp"
	"github.com/NibiruChain/nibiru/v2/x/evm"
	"github.com/NibiruChain/nibiru/v2/x/evm/evmtest"

	"verif/harness/internal/hx"
)

func init() { runners["msgtree"] = runMsgTree }

// commission rates the generator draws from, as raw LegacyDec integers (1e-18): both sides of the 25% cap, including values a
// whole-percent or basis-point comparison would let through
var commRates = []int{5e16, 2e17, 25e16, 25e16 + 1, 2501e14, 255e15, 26e16 - 1, 26e16, 6e17, 1e18}

// a node of the generated message tree, in the model's vocabulary
type mnode struct {
	kind  string // eth | comm | send | grant | exec | proposal | wasm
	who   int    // account index: signer / grantee / proposer / sender
	arg   int    // comm: rate as raw LegacyDec (1e-18); grant: grantee index; send: recipient
	gkind string // grant: message kind granted (eth | comm | send | exec)
	inner []mnode
}

func (m mnode) render() string {
	switch m.kind {
	case "eth":
		return "eth"
	case "comm":
		return fmt.Sprintf("comm:%d:%d", m.who, m.arg)
	case "send":
		return fmt.Sprintf("send:%d", m.who)
	case "grant":
		return fmt.Sprintf("grant:%d:%d:%s", m.who, m.arg, m.gkind)
	default:
		var in []string
		for _, x := range m.inner {
			in = append(in, x.render())
		}
		return fmt.Sprintf("%s:%d[%s]", m.kind, m.who, strings.Join(in, ";"))
	}
}

func runMsgTree(r *hx.R, n int, w *hx.W, _ []string) error {
	// accounts: 0,1,2 ordinary Cosmos accounts; 0 and 1 are validator operators after setup; 3 = the wasm contract; 4 = gov module
	var privs []cryptotypes.PrivKey
	for i := 0; i < 3; i++ {
		privs = append(privs, secp256k1.GenPrivKeyFromSecret([]byte(fmt.Sprintf("verif-msgtree-%d", i))))
	}
	addr := func(i int) sdk.AccAddress { return sdk.AccAddress(privs[i].PubKey().Address()) }
	ethAcc := evmtest.NewEthPrivAcc()
	wasmCode, err := os.ReadFile("/repo/x/devgas/v1/keeper/testdata/reflect.wasm")
	if err != nil {
		return err
	}
	var contract sdk.AccAddress
	chain := NewChain(func(ctx sdk.Context, a *app.NibiruApp) {
		for i := 0; i < 3; i++ {
			_ = testapp.FundAccount(a.BankKeeper, ctx, addr(i), sdk.NewCoins(sdk.NewInt64Coin("unibi", 9_000_000_000_000), sdk.NewInt64Coin("stake", 1_000_000)))
		}
		_ = testapp.FundAccount(a.BankKeeper, ctx, ethAcc.NibiruAddr, sdk.NewCoins(sdk.NewInt64Coin("unibi", 9_000_000_000_000)))
		c := mustInstantiate(a, ctx, wasmCode, addr(2).String(), "")
		contract = sdk.MustAccAddressFromBech32(c)
		_ = testapp.FundAccount(a.BankKeeper, ctx, contract, sdk.NewCoins(sdk.NewInt64Coin("unibi", 9_000_000_000_000)))
	})
	a := chain.App
	gov := a.AccountKeeper.GetModuleAddress(govtypes.ModuleName)
	acctAddr := func(i int) sdk.AccAddress {
		switch i {
		case 3:
			return contract
		case 4:
			return gov
		case 5:
			return ethAcc.NibiruAddr
		default:
			return addr(i)
		}
	}
	valKeys := map[int]cryptotypes.PubKey{}
	// operators 0 and 1 (and the contract, when it manages to) create validators; MaxRate = 100% so that only the 25% cap binds
	mkStaking := func(ctx sdk.Context, op int, rate int64) sdk.Msg {
		val := sdk.ValAddress(acctAddr(op))
		if _, found := a.StakingKeeper.GetValidator(ctx, val); found {
			d := sdkmath.LegacyNewDecWithPrec(rate, 18)
			return stakingtypes.NewMsgEditValidator(val, stakingtypes.Description{Moniker: stakingtypes.DoNotModifyDesc, Identity: stakingtypes.DoNotModifyDesc,
				Website: stakingtypes.DoNotModifyDesc, SecurityContact: stakingtypes.DoNotModifyDesc, Details: stakingtypes.DoNotModifyDesc}, &d, nil)
		}
		pk, ok := valKeys[op]
		if !ok {
			pk = ed25519.GenPrivKeyFromSecret([]byte(fmt.Sprintf("verif-val-%d-%d", op, r.Int63()))).PubKey()
			valKeys[op] = pk
		}
		m, err := stakingtypes.NewMsgCreateValidator(val, pk, sdk.NewInt64Coin("unibi", 1_000_000), stakingtypes.Description{Moniker: "m"},
			stakingtypes.NewCommissionRates(sdkmath.LegacyNewDecWithPrec(rate, 18), sdkmath.LegacyOneDec(), sdkmath.LegacyOneDec()), sdkmath.OneInt())
		if err != nil {
			panic(err)
		}
		return m
	}
	kindURL := map[string]string{"eth": sdk.MsgTypeURL(&evm.MsgEthereumTx{}), "comm": sdk.MsgTypeURL(&stakingtypes.MsgEditValidator{}),
		"send": sdk.MsgTypeURL(&banktypes.MsgSend{}), "exec": sdk.MsgTypeURL(&authz.MsgExec{})}
	var forgeFrom sdk.AccAddress
	var build func(ctx sdk.Context, m mnode) (sdk.Msg, error)
	build = func(ctx sdk.Context, m mnode) (sdk.Msg, error) {
		switch m.kind {
		case "eth":
			nonce := a.EvmKeeper.GetAccNonce(ctx, ethAcc.EthAddr)
			to := gethcommon.HexToAddress("0x00000000000000000000000000000000000000aa")
			sp := ethMsgSpec{from: ethAcc, nonce: nonce, gasLimit: 21000, price: big.NewInt(1_000_000_000_000), value: big.NewInt(1_000_000_000_000), to: &to}
			em, err := sp.build()
			if err == nil && forgeFrom != nil && r.Chance(2, 3) {
				// `from` is an unauthenticated field of the wire message: inside a wrapper the attacker sets it to whatever the
				// wrapper's signer check would like to see (the grantee, the gov account, the contract)
				em.From = gethcommon.BytesToAddress(forgeFrom).Hex()
			}
			return em, err
		case "comm":
			return mkStaking(ctx, m.who, int64(m.arg)), nil
		case "send":
			return banktypes.NewMsgSend(acctAddr(m.who), acctAddr((m.who+1)%3), sdk.NewCoins(sdk.NewInt64Coin("unibi", 1))), nil
		case "grant":
			exp := chain.Time.Add(2_000_000 * time.Hour)
			url := kindURL[m.gkind]
			if m.gkind == "comm" {
				url = sdk.MsgTypeURL(&stakingtypes.MsgEditValidator{})
			}
			return authz.NewMsgGrant(acctAddr(m.who), acctAddr(m.arg), authz.NewGenericAuthorization(url), &exp)
		case "exec":
			var in []sdk.Msg
			saved := forgeFrom
			forgeFrom = acctAddr(m.who)
			defer func() { forgeFrom = saved }()
			for _, x := range m.inner {
				im, err := build(ctx, x)
				if err != nil {
					return nil, err
				}
				in = append(in, im)
			}
			e := authz.NewMsgExec(acctAddr(m.who), in)
			return &e, nil
		case "proposal":
			var in []sdk.Msg
			saved := forgeFrom
			forgeFrom = a.AccountKeeper.GetModuleAddress("gov")
			defer func() { forgeFrom = saved }()
			for _, x := range m.inner {
				im, err := build(ctx, x)
				if err != nil {
					return nil, err
				}
				in = append(in, im)
			}
			return govv1.NewMsgSubmitProposal(in, sdk.NewCoins(sdk.NewInt64Coin("unibi", 1_000_000)), acctAddr(m.who).String(), "meta", "title", "summary")
		case "wasm":
			// the reflect contract re-dispatches the given messages as its own (Stargate-encoded)
			type stargate struct {
				TypeURL string `json:"type_url"`
				Value   string `json:"value"`
			}
			var msgs []map[string]any
			saved := forgeFrom
			forgeFrom = contract
			defer func() { forgeFrom = saved }()
			for _, x := range m.inner {
				im, err := build(ctx, x)
				if err != nil {
					return nil, err
				}
				packed, err := codectypes.NewAnyWithValue(im)
				if err != nil {
					return nil, err
				}
				msgs = append(msgs, map[string]any{"stargate": stargate{TypeURL: packed.TypeUrl, Value: base64.StdEncoding.EncodeToString(packed.Value)}})
			}
			bz, _ := json.Marshal(map[string]any{"reflect_msg": map[string]any{"msgs": msgs}})
			return &wasmtypes.MsgExecuteContract{Sender: acctAddr(m.who).String(), Contract: contract.String(), Msg: bz}, nil
		}
		return nil, fmt.Errorf("unknown kind %s", m.kind)
	}
	var gen func(depth int) mnode
	gen = func(depth int) mnode {
		c := r.Pick(12)
		if depth >= 3 && c >= 6 {
			c = r.Pick(6)
		}
		switch {
		case c < 2:
			return mnode{kind: "eth"}
		case c < 4:
			rate := commRates[r.Pick(len(commRates))]
			who := r.Pick(2)
			if r.Chance(1, 5) {
				who = 3 // the contract as validator operator
			}
			return mnode{kind: "comm", who: who, arg: rate}
		case c < 5:
			return mnode{kind: "send", who: r.Pick(4)}
		case c < 6:
			return mnode{kind: "grant", who: r.Pick(4), arg: r.Pick(4), gkind: []string{"eth", "comm", "send", "exec"}[r.Pick(4)]}
		case c < 10:
			k := 1 + r.Pick(2)
			m := mnode{kind: "exec", who: r.Pick(4)}
			for i := 0; i < k; i++ {
				m.inner = append(m.inner, gen(depth+1))
			}
			return m
		case c < 11:
			m := mnode{kind: "proposal", who: r.Pick(3)}
			m.inner = append(m.inner, gen(depth+1))
			if r.Chance(1, 2) { // something the gov account could sign
				m.inner = []mnode{{kind: "exec", who: 4, inner: []mnode{gen(depth + 2)}}}
			}
			return m
		default:
			m := mnode{kind: "wasm", who: 2}
			m.inner = append(m.inner, gen(depth+1))
			return m
		}
	}
	rates := commRates
	aimed := func() []mnode {
		o := r.Pick(2)
		x := (o + 1 + r.Pick(2)) % 3
		rt := rates[r.Pick(len(rates))]
		comm := func(op int) mnode { return mnode{kind: "comm", who: op, arg: rt} }
		switch r.Pick(18) {
		case 16, 17: // the staking (or Ethereum) message at the bottom of a deep tower of self-execs: any depth must be treated alike
			inner := comm(o)
			if r.Chance(1, 4) {
				inner = mnode{kind: "eth"}
			}
			for d := r.Range(3, 10); d > 0; d-- {
				inner = mnode{kind: "exec", who: o, inner: []mnode{inner}}
			}
			return []mnode{inner}
		case 14: // a governance proposal that carries an Ethereum tx (its unauthenticated `from` names the gov account)
			return []mnode{{kind: "proposal", who: o, inner: []mnode{{kind: "eth"}}}}
		case 15:
			return []mnode{{kind: "proposal", who: o, inner: []mnode{{kind: "exec", who: 4, inner: []mnode{{kind: "eth"}}}}}}
		case 0:
			return []mnode{comm(o)}
		case 1:
			return []mnode{{kind: "exec", who: o, inner: []mnode{comm(o)}}}
		case 2:
			return []mnode{{kind: "exec", who: o, inner: []mnode{{kind: "exec", who: o, inner: []mnode{comm(o)}}}}}
		case 3:
			return []mnode{{kind: "grant", who: o, arg: x, gkind: "comm"}}
		case 4:
			return []mnode{{kind: "exec", who: x, inner: []mnode{comm(o)}}}
		case 5:
			return []mnode{{kind: "wasm", who: 2, inner: []mnode{comm(3)}}}
		case 6:
			return []mnode{{kind: "wasm", who: 2, inner: []mnode{{kind: "exec", who: 3, inner: []mnode{comm(3)}}}}}
		case 7:
			return []mnode{{kind: "exec", who: x, inner: []mnode{{kind: "eth"}}}}
		case 8:
			return []mnode{{kind: "exec", who: x, inner: []mnode{{kind: "exec", who: x, inner: []mnode{{kind: "eth"}}}}}}
		case 9:
			return []mnode{{kind: "wasm", who: 2, inner: []mnode{{kind: "exec", who: 3, inner: []mnode{{kind: "eth"}}}}}}
		case 10: // the Ethereum account itself tries to act as a Cosmos signer
			return []mnode{{kind: "exec", who: 5, inner: []mnode{{kind: "exec", who: 5, inner: []mnode{{kind: "eth"}}}}}}
		case 11:
			return []mnode{{kind: "send", who: 5}}
		case 12:
			return []mnode{{kind: "eth"}}
		default:
			return []mnode{{kind: "exec", who: o, inner: []mnode{{kind: "grant", who: o, arg: x, gkind: "eth"}}}}
		}
	}
	// decorate puts harmless siblings (a send, or a self-exec around a send, by the signer the list requires) before and after
	// the messages of a list, at every level: a guard that stops scanning a list early is only visible with such siblings
	var decorate func(list []mnode, signer int) []mnode
	decorate = func(list []mnode, signer int) []mnode {
		var out []mnode
		harmless := func(who int) mnode {
			send := mnode{kind: "send", who: who}
			switch r.Pick(5) {
			case 0, 1:
				return send
			case 2:
				return mnode{kind: "exec", who: who, inner: []mnode{send}}
			case 3: // a wrapper that expands to MORE messages than it occupies (a scan that flattens in place would overwrite what follows)
				return mnode{kind: "exec", who: who, inner: []mnode{send, send}}
			default:
				return mnode{kind: "exec", who: who, inner: []mnode{{kind: "exec", who: who, inner: []mnode{send, send, send}}}}
			}
		}
		for _, m := range list {
			who := signer
			if who < 0 {
				who = m.who
				if m.kind == "eth" {
					who = 0
				}
			}
			if r.Chance(1, 3) {
				out = append(out, harmless(who))
			}
			switch m.kind {
			case "exec":
				m.inner = decorate(m.inner, m.who)
			case "wasm":
				m.inner = decorate(m.inner, 3)
			}
			out = append(out, m)
			if r.Chance(1, 5) {
				out = append(out, harmless(who))
			}
		}
		return out
	}
	signerOf := func(m mnode) int {
		switch m.kind {
		case "eth":
			return -1
		default:
			return m.who
		}
	}
	for c := 0; c < n; c++ {
		chain.Time = chain.Time.Add(25 * time.Hour) // a commission change is allowed once per 24 h
		chain.Begin()
		ctx := chain.Ctx()
		// state the model needs: validators' commission and grants are read back after every tx; here: a fresh sequence
		w.Step("msgtree reset "+msgtreeState(a, ctx, acctAddr, kindURL), "ok")
		ntx := 1 + r.Pick(3)
		for t := 0; t < ntx; t++ {
			ctx = chain.Ctx()
			nm := 1 + r.Pick(2)
			var nodes []mnode
			if r.Chance(3, 5) {
				nodes = aimed()
				if r.Chance(1, 2) {
					nodes = decorate(nodes, -1)
				}
			} else {
				for i := 0; i < nm; i++ {
					nodes = append(nodes, gen(0))
				}
			}
			var msgs []sdk.Msg
			signers := []int{}
			seen := map[int]bool{}
			bad := false
			for _, nd := range nodes {
				m, err := build(ctx, nd)
				if err != nil {
					bad = true
					break
				}
				msgs = append(msgs, m)
				s := signerOf(nd)
				if !seen[s] {
					seen[s] = true
					signers = append(signers, s)
				}
			}
			if bad {
				continue
			}
			// only accounts 0..2 can sign Cosmos txs; a tx that needs another signature is delivered with the attacker's (0) only
			var keys []cryptotypes.PrivKey
			sigOK := true
			for _, s := range signers {
				if s >= 0 && s < 3 {
					keys = append(keys, privs[s])
				} else if s == 5 {
					keys = append(keys, ethAcc.PrivKey) // an eth_secp256k1 key signing a Cosmos tx: must be refused
					sigOK = false
				} else {
					sigOK = false
				}
			}
			if len(keys) == 0 {
				keys = append(keys, privs[0])
			}
			useEthExt := r.Chance(1, 12) // the same body with the EVM extension option: must be refused unless it is a pure eth tx
			var tx sdk.Tx
			var berr error
			if useEthExt {
				allEth := true
				var ems []*evm.MsgEthereumTx
				for _, m := range msgs {
					if em, ok := m.(*evm.MsgEthereumTx); ok {
						ems = append(ems, em)
					} else {
						allEth = false
					}
				}
				if allEth {
					tx, berr = wrapEthMsgs(a, ems)
				} else {
					useEthExt = false
				}
			}
			if !useEthExt {
				tx, berr = chain.SignCosmos(ctx, msgs, sdk.NewCoins(sdk.NewInt64Coin("unibi", 5_000_000)), 5_000_000, keys...)
			}
			if berr != nil {
				continue
			}
			res := chain.Deliver(tx)
			ethRan := 0
			for _, e := range res.Events {
				if strings.HasSuffix(e.Type, "EventEthereumTx") {
					ethRan++
				}
			}
			cls := "ok"
			if res.Code != 0 {
				cls = "fail"
			}
			var rn []string
			for _, nd := range nodes {
				rn = append(rn, nd.render())
			}
			if os.Getenv("VERIF_DEBUG") != "" && res.Code != 0 {
				fmt.Fprintln(os.Stderr, "DEBUG", w.N+1, res.Codespace, res.Code, res.Log[:min(len(res.Log), 300)])
			}
			w.Count("tx:" + cls)
			obs := "fail"
			// where the tx failed, as far as the error text tells: refused by one of the two Ethereum guards (the first decorators of
			// the non-EVM chain), or during message execution (after the whole ante chain accepted it), or elsewhere (basic
			// validation before the ante chain, another decorator). The model must agree on the guard verdict.
			if cls == "fail" {
				switch {
				case strings.Contains(res.Log, "needs to be contained within a tx with 'ExtensionOptionsEthereumTx'") ||
					strings.Contains(res.Log, "authz grant generic for msg type"):
					cls, obs = "failguard", "fail:ethguard"
				case strings.Contains(res.Log, "failed to execute message"):
					cls, obs = "failexec", "fail:exec"
				}
			}
			if cls == "ok" {
				obs = fmt.Sprintf("ok eth=%d %s", ethRan, msgtreeState(a, chain.Ctx(), acctAddr, kindURL))
			}
			w.Step(fmt.Sprintf("msgtree tx %s %s %s %s", b01(useEthExt), b01(sigOK), cls, strings.Join(rn, ",")), obs)
		}
		chain.End()
		chain.Commit()
	}
	_ = abci.ResponseDeliverTx{}
	_ = authtypes.ModuleName
	return nil
}

// msgtreeState renders what the model tracks: commission (raw LegacyDec integer) of the validators of accounts 0,1,3 and the
// generic grants among accounts 0..4 for the four message kinds.
func msgtreeState(a *app.NibiruApp, ctx sdk.Context, acctAddr func(int) sdk.AccAddress, kindURL map[string]string) string {
	var vals, grants []string
	for _, i := range []int{0, 1, 3} {
		if v, found := a.StakingKeeper.GetValidator(ctx, sdk.ValAddress(acctAddr(i))); found {
			vals = append(vals, fmt.Sprintf("%d:%s", i, v.Commission.Rate.BigInt().String()))
		}
	}
	_ = grants
	return fmt.Sprintf("VAL=%s", items(vals))
}
