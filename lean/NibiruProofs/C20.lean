/-
  C20 — exported state re-imports to the same state for every Nibiru module.

  PARTIAL.  Proved over NibiruModel.Genesis:
    * (T1) every `collections` field of every custom module's keeper, as re-read from the source on every run, is classified
      (exported / normalised / transient / derived / dropped) and ExportGenesis / InitGenesis mention it as its class requires;
      a field that is added, or dropped from an export, breaks this obligation;
    * for every module state, a second export after import equals the first export (for exported fields entry by entry; for
      normalised fields — oracle exchange rates, epochs — on the projection the export keeps), whatever the import context stamps;
    * the oracle's reward sequence: with the expression the source stores at import, the next reward id is fresh (does not collide
      with an imported reward); counterexample for the expression as it was (repaired by a fix: commit).
  NOT proved: that the Go Init/ExportGenesis code implements `exportG` / `initG` per field (tied by the full-application
  export → InitChain → export differential run), and the reachability side ("every reachable state").
-/
import NibiruModel.Genesis
import Generated.Facts

namespace Nibiru.Genesis
open Nibiru

/-- (T1) the regenerated field table is completely classified and consistent with the classes -/
theorem fact_C20_store_fields_classified : tableOk Generated.storeFields = true := by decide

theorem get_map_self (fs : List String) (h : fs.Nodup) (F : String → Entries) (f : String) (hf : f ∈ fs) :
    get (fs.map (fun x => (x, F x))) f = F f := by
  induction fs with
  | nil => cases hf
  | cons a t ih =>
    simp only [List.nodup_cons] at h
    simp only [List.map_cons, get, AList.find?]
    by_cases hfa : a = f
    · simp [hfa]
    · simp only [hfa, if_false]
      rcases List.mem_cons.mp hf with e | e
      · exact absurd e.symm hfa
      · simpa [get] using ih h.2 e

theorem get_append_left (a b : ModState) (f : String) (h : f ∈ a.map (·.1)) : get (a ++ b) f = get a f := by
  induction a with
  | nil => cases h
  | cons x t ih =>
    obtain ⟨k, v⟩ := x
    simp only [List.cons_append, get, AList.find?]
    by_cases hk : k = f
    · simp [hk]
    · simp only [hk, if_false]
      have : f ∈ t.map (·.1) := by
        simp only [List.map_cons, List.mem_cons] at h
        rcases h with e | e
        · exact absurd e.symm hk
        · exact e
      simpa [get] using ih this

theorem get_append_right (a b : ModState) (f : String) (h : f ∉ a.map (·.1)) : get (a ++ b) f = get b f := by
  induction a with
  | nil => rfl
  | cons x t ih =>
    obtain ⟨k, v⟩ := x
    simp only [List.map_cons, List.mem_cons, not_or] at h
    simp only [List.cons_append, get, AList.find?]
    have hk : ¬ k = f := fun e => h.1 e.symm
    simp only [hk, if_false]
    simpa [get] using ih h.2

/-- field names of the model's table are distinct per module and class lists do not overlap -/
theorem fields_nodup (m : String) (hm : m ∈ ["evm", "oracle", "tokenfactory", "sudo", "inflation", "epochs", "devgas"]) :
    ((fieldsOf m .exported) ++ (fieldsOf m .normalised) ++ (fieldsOf m .derived)).Nodup := by
  simp only [List.mem_cons, List.mem_singleton, List.not_mem_nil, or_false] at hm
  rcases hm with h | h | h | h | h | h | h <;> subst h <;> decide

/-- **C20 (second export = first export).** For every custom module and every state of its stores: export, import into a fresh
    store (any re-stamping of normalised values, any rebuilding of derived fields), export again — the two exports are equal,
    provided the export's projection forgets exactly what the import re-stamps (`norm (stamp (norm v)) = norm v`). -/
theorem C20_second_export_equals_first (m : String)
    (hm : m ∈ ["evm", "oracle", "tokenfactory", "sudo", "inflation", "epochs", "devgas"])
    (norm stamp : String → String) (derive : String → ModState → Entries)
    (hns : ∀ v, norm (stamp (norm v)) = norm v) (s : ModState) :
    exportG m norm (initG m stamp derive (exportG m norm s)) = exportG m norm s := by
  have hnd := fields_nodup m hm
  have hnd1 : ((fieldsOf m .exported) ++ (fieldsOf m .normalised)).Nodup := (List.nodup_append.mp hnd).1
  have hE := (List.nodup_append.mp hnd1).1
  have hN := (List.nodup_append.mp hnd1).2.1
  have hdisj : ∀ f ∈ fieldsOf m .normalised, f ∉ fieldsOf m .exported :=
    fun f hf he => (List.nodup_append.mp hnd1).2.2 f he f hf rfl
  -- reading a field of the first export
  have rdE : ∀ f ∈ fieldsOf m .exported, get (exportG m norm s) f = get s f := by
    intro f hf
    unfold exportG
    rw [get_append_left _ _ f (by simpa [List.map_map, Function.comp] using hf)]
    exact get_map_self _ hE (fun x => get s x) f hf
  have rdN : ∀ f ∈ fieldsOf m .normalised, get (exportG m norm s) f = (get s f).map (fun kv => (kv.1, norm kv.2)) := by
    intro f hf
    unfold exportG
    rw [get_append_right _ _ f (by simpa [List.map_map, Function.comp] using hdisj f hf)]
    exact get_map_self _ hN (fun x => (get s x).map (fun kv => (kv.1, norm kv.2))) f hf
  -- reading a field of the imported state
  have riE : ∀ f ∈ fieldsOf m .exported, get (initG m stamp derive (exportG m norm s)) f = get (exportG m norm s) f := by
    intro f hf
    unfold initG
    rw [List.append_assoc, get_append_left _ _ f (by simpa [List.map_map, Function.comp] using hf)]
    exact get_map_self _ hE (fun x => get (exportG m norm s) x) f hf
  have riN : ∀ f ∈ fieldsOf m .normalised, get (initG m stamp derive (exportG m norm s)) f =
      (get (exportG m norm s) f).map (fun kv => (kv.1, stamp kv.2)) := by
    intro f hf
    unfold initG
    rw [List.append_assoc, get_append_right _ _ f (by simpa [List.map_map, Function.comp] using hdisj f hf),
      get_append_left _ _ f (by simpa [List.map_map, Function.comp] using hf)]
    exact get_map_self _ hN (fun x => (get (exportG m norm s) x).map (fun kv => (kv.1, stamp kv.2))) f hf
  generalize hI : initG m stamp derive (exportG m norm s) = I at riE riN ⊢
  unfold exportG
  congr 1
  · apply List.map_congr_left
    intro f hf
    rw [riE f hf, rdE f hf]
  · apply List.map_congr_left
    intro f hf
    rw [riN f hf, rdN f hf]
    simp only [List.map_map]
    congr 1
    apply List.map_congr_left
    intro kv _
    simp [Function.comp, hns]

/-! ### the oracle reward sequence after import -/

/-- the expression the source stores today -/
def rewardsExprNow : String := (Generated.oracleRewardsIDInit.head?).getD ""

/-- (T1) InitGenesis stores "last id + 1" -/
theorem fact_C20_rewards_id_expr : Generated.oracleRewardsIDInit = ["data.Rewards[len(data.Rewards)-1].Id + 1"] := by decide

theorem mem_le_getLast (ids : List Nat) (h : ids.Pairwise (· < ·)) (last : Nat) (hl : ids.getLast? = some last) :
    ∀ x ∈ ids, x ≤ last := by
  induction ids with
  | nil => intro x hx; cases hx
  | cons a t ih =>
    intro x hx
    cases t with
    | nil =>
      simp only [List.getLast?_singleton, Option.some.injEq] at hl
      simp only [List.mem_singleton] at hx
      omega
    | cons b t' =>
      have hl' : (b :: t').getLast? = some last := by simpa [List.getLast?_cons_cons] using hl
      have hp := List.pairwise_cons.mp h
      rcases List.mem_cons.mp hx with e | e
      · have hb := ih hp.2 hl' b (List.mem_cons_self ..)
        have := hp.1 b (List.mem_cons_self ..)
        omega
      · exact ih hp.2 hl' x e

/-- **C20 (oracle rewards).** With the expression the source stores, the id that the next `AllocateRewards` hands out after an
    import is not the id of any imported reward (the rewards are exported in key order), so no pending reward is overwritten. -/
theorem C20_next_reward_id_fresh (ids : List Nat) (h : ids.Pairwise (· < ·)) (stored : Nat)
    (hs : rewardsIdInit "data.Rewards[len(data.Rewards)-1].Id + 1" ids = some stored) :
    (seqNext stored).1 ∉ ids := by
  unfold rewardsIdInit at hs
  cases hl : ids.getLast? with
  | none => simp [hl] at hs
  | some last =>
    simp only [hl, true_or, if_true, Option.some.injEq] at hs
    subst hs
    intro hmem
    have := mem_le_getLast ids h last hl _ hmem
    simp only [seqNext] at this
    omega

/-- the expression as it was: the next id IS the last imported reward's id (replayed on the real app: the pending reward is
    overwritten by the next allocation) -/
theorem C20_counterexample_reward_id_collides_before_fix :
    ∃ stored, rewardsIdInit "data.Rewards[len(data.Rewards)-1].Id" [1, 2, 3] = some stored ∧ (seqNext stored).1 ∈ [1, 2, 3] := by
  exact ⟨3, by decide, by decide⟩

/-! ### non-vacuity -/
example : exportG "oracle" id [("Rewards", [("1", "r1")]), ("PriceSnapshots", [("k", "v")]), ("ExchangeRates", [("p", "rate")])]
    = [("FeederDelegations", []), ("MissCounters", []), ("Params", []), ("Prevotes", []), ("Rewards", [("1", "r1")]),
       ("Votes", []), ("WhitelistedPairs", []), ("ExchangeRates", [("p", "rate")])] := by decide

end Nibiru.Genesis
