package main

import (
	"go/ast"
	"sort"
	"strings"
)

// Facts about the NibiruBankKeeper overrides (C09 / C06): a bank operation is mirrored into the StateDB that Keeper.Bank.StateDB
// designates only when it moves the EVM gas token — every call of SyncStateDBWithAccount sits under
// `if findEtherBalanceChangeFromCoins(<the operation's coins>)`.
//   bankSyncGuards   per call of SyncStateDBWithAccount in bank_extension.go: "Func: <innermost enclosing if condition>" ("-" if none), sorted, deduplicated
func init() {
	extractors["banksync"] = func(repo string, out *leanFile, js map[string]any) error {
		set := map[string]bool{}
		for _, sf := range loadDir(repo, "x/evm/keeper") {
			if !strings.HasSuffix(sf.rel, "bank_extension.go") {
				continue
			}
			for _, d := range sf.file.Decls {
				fd, ok := d.(*ast.FuncDecl)
				if !ok || fd.Body == nil || fd.Name.Name == "SyncStateDBWithAccount" {
					continue
				}
				var stack []string
				var walk func(n ast.Node)
				walk = func(n ast.Node) {
					ast.Inspect(n, func(m ast.Node) bool {
						switch x := m.(type) {
						case *ast.IfStmt:
							if x.Init != nil {
								walk(x.Init)
							}
							stack = append(stack, exprString(x.Cond))
							walk(x.Body)
							stack = stack[:len(stack)-1]
							if x.Else != nil {
								walk(x.Else)
							}
							return false
						case *ast.CallExpr:
							if se, ok := x.Fun.(*ast.SelectorExpr); ok && se.Sel.Name == "SyncStateDBWithAccount" {
								g := "-"
								if len(stack) > 0 {
									g = stack[len(stack)-1]
								}
								set[funcName(fd)+": "+g] = true
							}
						}
						return true
					})
				}
				walk(fd.Body)
			}
		}
		var items []string
		for k := range set {
			items = append(items, k)
		}
		sort.Strings(items)
		out.f("def bankSyncGuards : List String := %s\n", leanStrList(items))
		// syncStateDBEarlyReturns: the conditions under which SyncStateDBWithAccount returns without touching the StateDB, in
		// source order (no designated StateDB; an address that has no 20-byte EVM counterpart)
		var early []string
		if fd := findFunc(repo, "x/evm/keeper", "NibiruBankKeeper.SyncStateDBWithAccount"); fd != nil {
			for _, st := range fd.Body.List {
				if is, ok := st.(*ast.IfStmt); ok && len(is.Body.List) == 1 {
					if _, ok := is.Body.List[0].(*ast.ReturnStmt); ok {
						early = append(early, exprString(is.Cond))
					}
				}
			}
		}
		out.f("def syncStateDBEarlyReturns : List String := %s\n", leanStrList(early))
		return nil
	}
}
