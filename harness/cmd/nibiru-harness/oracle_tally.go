package main

import (
	"github.com/NibiruChain/nibiru/v2/x/oracle"
	"encoding/hex"
	"fmt"
	"math/big"
	"sort"
	"strings"

	sdkmath "cosmossdk.io/math"
	"github.com/cosmos/cosmos-sdk/crypto/keys/ed25519"
	sdk "github.com/cosmos/cosmos-sdk/types"
	"github.com/cosmos/cosmos-sdk/x/staking"
	stakingkeeper "github.com/cosmos/cosmos-sdk/x/staking/keeper"
	stakingtypes "github.com/cosmos/cosmos-sdk/x/staking/types"

	"github.com/NibiruChain/collections"

	"github.com/NibiruChain/nibiru/v2/app"
	"github.com/NibiruChain/nibiru/v2/x/common/asset"
	"github.com/NibiruChain/nibiru/v2/x/common/denoms"
	"github.com/NibiruChain/nibiru/v2/x/common/testutil/testapp"
	oracletypes "github.com/NibiruChain/nibiru/v2/x/oracle/types"

	"verif/harness/internal/hx"
)

func init() { runners["otally"] = runOracleTally }

func items(xs []string) string {
	if len(xs) == 0 {
		return "-"
	}
	return strings.Join(xs, ",")
}

func b01(b bool) string {
	if b {
		return "1"
	}
	return "0"
}

type hval struct {
	addr  sdk.ValAddress
	power int64
}

// createValidators creates validators through the real staking msg server and bonds them with the staking EndBlocker.
func createValidators(r *hx.R, nibiru *app.NibiruApp, ctx sdk.Context, n int, tag byte) []hval {
	ms := stakingkeeper.NewMsgServerImpl(nibiru.StakingKeeper)
	var out []hval
	samePower := int64(0)
	if r.Chance(1, 2) {
		samePower = []int64{1, 1, 2, 10}[r.Pick(4)]
	}
	for i := 0; i < n; i++ {
		seed := make([]byte, 32)
		seed[0], seed[1], seed[2] = tag, byte(i), byte(r.Pick(250))
		r.Read(seed[3:])
		priv := ed25519.GenPrivKeyFromSecret(seed)
		addr := sdk.ValAddress(priv.PubKey().Address())
		var power int64
		switch r.Pick(5) {
		case 0:
			power = 1
		case 1:
			power = r.Range(1, 3)
		case 2:
			power = r.Range(1, 1_000_000)
		default:
			power = r.Range(1, 100)
		}
		if samePower > 0 { // equal powers: cumulative power hits exactly half of the total
			power = samePower
		}
		amt := sdk.TokensFromConsensusPower(power, sdk.DefaultPowerReduction)
		if r.Chance(1, 4) { // not an exact multiple of the power reduction
			amt = amt.AddRaw(r.Range(1, 999_999))
		}
		coin := sdk.NewCoin(denoms.NIBI, amt)
		if err := testapp.FundAccount(nibiru.BankKeeper, ctx, sdk.AccAddress(addr), sdk.NewCoins(coin)); err != nil {
			panic(err)
		}
		msg, err := stakingtypes.NewMsgCreateValidator(addr, priv.PubKey(), coin, stakingtypes.Description{Moniker: "v"},
			stakingtypes.NewCommissionRates(sdkmath.LegacyNewDecWithPrec(5, 2), sdkmath.LegacyNewDecWithPrec(20, 2), sdkmath.LegacyNewDecWithPrec(1, 2)),
			sdkmath.OneInt())
		if err != nil {
			panic(err)
		}
		if _, err := ms.CreateValidator(ctx, msg); err != nil {
			panic(err)
		}
		out = append(out, hval{addr, power})
	}
	staking.EndBlocker(ctx, nibiru.StakingKeeper)
	return out
}

func rawToDec(x *big.Int) sdkmath.LegacyDec { return sdkmath.LegacyNewDecFromBigIntWithPrec(new(big.Int).Set(x), 18) }

// genRate: positive, abstain (zero/negative), tie-prone and extreme magnitudes
func genRate(r *hx.R, base int64) *big.Int {
	e18 := big.NewInt(1_000_000_000_000_000_000)
	switch r.Pick(12) {
	case 0:
		return big.NewInt(0)
	case 1:
		return big.NewInt(-r.Range(1, 1_000_000_000_000_000_000))
	case 2: // exact tie on the base
		return new(big.Int).Mul(big.NewInt(base), e18)
	case 3: // near the base: inside a 2% band or just outside
		x := new(big.Int).Mul(big.NewInt(base), e18)
		d := new(big.Int).Div(x, big.NewInt(r.Range(40, 200)))
		if r.Chance(1, 2) {
			d.Neg(d)
		}
		return x.Add(x, d)
	case 4: // exactly at band edge ±1%
		x := new(big.Int).Mul(big.NewInt(base), e18)
		d := new(big.Int).Div(x, big.NewInt(100))
		d.Add(d, big.NewInt(r.Range(-1, 1)))
		if r.Chance(1, 2) {
			d.Neg(d)
		}
		return x.Add(x, d)
	case 5:
		return r.BigBits(r.Pick(300) + 1).Add(big.NewInt(1), r.BigBits(r.Pick(300)+1))
	case 6:
		return big.NewInt(r.Range(1, 1000))
	default:
		x := new(big.Int).Mul(big.NewInt(base), e18)
		return x.Add(x, big.NewInt(r.Range(-1_000_000_000_000_000_000, 1_000_000_000_000_000_000)))
	}
}

func runOracleTally(r *hx.R, n int, w *hx.W, _ []string) error {
	nibiru, ctx0 := testapp.NewNibiruTestAppAndContext()
	k := nibiru.OracleKeeper
	allPairs := []string{"aaa:usd", "btc:usd", "eth:usd", "nibi:usd", "sol:usd", "zzz:usd"}
	var ctxSet sdk.Context
	var vals []hval
	for c := 0; c < n; c++ {
		if c%8 == 0 { // a fresh validator set every few cases
			ctxSet, _ = ctx0.CacheContext()
			ctxSet = ctxSet.WithBlockHeight(ctx0.BlockHeight() + 1)
			vals = createValidators(r, nibiru, ctxSet, 1+r.Pick(7), byte(c%200))
			// jail / unbond some of them
			for _, v := range vals {
				if r.Chance(1, 6) {
					val, _ := nibiru.StakingKeeper.GetValidator(ctxSet, v.addr)
					cons, _ := val.GetConsAddr()
					nibiru.StakingKeeper.Jail(ctxSet, cons)
				}
			}
			staking.EndBlocker(ctxSet, nibiru.StakingKeeper)
		}
		ctx, _ := ctxSet.CacheContext()
		height := r.Range(10, 5000)
		ctx = ctx.WithBlockHeight(height)

		// --- oracle state
		params := oracletypes.DefaultParams()
		params.VotePeriod = uint64(r.Range(1, 30))
		params.VoteThreshold = sdkmath.LegacyNewDecWithPrec(r.Range(331, 1000), 3)
		if r.Chance(1, 3) {
			params.VoteThreshold = sdkmath.LegacyNewDecWithPrec(r.Range(330000001, 1000000000), 9)
		}
		params.MinVoters = uint64(r.Range(1, 4))
		params.ExpirationBlocks = uint64(r.Range(1, 200))
		params.RewardBand = sdkmath.LegacyNewDecWithPrec(r.Range(0, 1000), 3)
		if r.Chance(1, 2) {
			params.RewardBand = sdkmath.LegacyNewDecWithPrec(2, 2)
		}
		nW := 1 + r.Pick(4)
		perm := r.Perm(len(allPairs))
		var wl []asset.Pair
		for i := 0; i < nW; i++ {
			wl = append(wl, asset.Pair(allPairs[perm[i]]))
		}
		next := append([]asset.Pair{}, wl...)
		switch r.Pick(10) { // params whitelist differs from the store
		case 0, 1:
			next = append(next, asset.Pair(allPairs[perm[nW]]))
		case 2: // a pair is de-listed (and, half of the time, another one listed instead): the store has to lose it at the period end
			// whether or not it was voted on and whether or not it reached quorum
			next = append([]asset.Pair{}, wl[1:]...)
			if r.Chance(1, 2) || len(next) == 0 {
				next = append(next, asset.Pair(allPairs[perm[nW]]))
			}
		case 3: // two de-listed, one listed
			if len(wl) > 2 {
				next = append(append([]asset.Pair{}, wl[2:]...), asset.Pair(allPairs[perm[nW]]))
			}
		}
		params.Whitelist = next
		k.Params.Set(ctx, params)
		for _, p := range k.WhitelistedPairs.Iterate(ctx, collections.Range[asset.Pair]{}).Keys() {
			k.WhitelistedPairs.Delete(ctx, p)
		}
		for _, p := range wl {
			k.WhitelistedPairs.Insert(ctx, p)
		}
		for _, p := range k.ExchangeRates.Iterate(ctx, collections.Range[asset.Pair]{}).Keys() {
			_ = k.ExchangeRates.Delete(ctx, p)
		}
		// stored rates: some fresh, some about to expire, some for non-whitelisted pairs
		for _, p := range allPairs {
			if r.Chance(1, 2) {
				created := uint64(r.Range(0, height))
				if r.Chance(1, 3) {
					created = uint64(height) - params.ExpirationBlocks + uint64(r.Range(0, 2)) - 1
					if int64(created) < 0 {
						created = 0
					}
				}
				k.ExchangeRates.Insert(ctx, asset.Pair(p), oracletypes.ExchangeRateAtBlock{
					ExchangeRate: rawToDec(big.NewInt(r.Range(1, 1_000_000_000_000_000_000))), CreatedBlock: created})
			}
		}
		// votes
		base := r.Range(1, 100000)
		type voter struct {
			addr sdk.ValAddress
		}
		voters := []sdk.ValAddress{}
		for _, v := range vals {
			if r.Chance(5, 6) {
				voters = append(voters, v.addr)
			}
		}
		if r.Chance(1, 4) { // a vote from an address that is not a validator at all
			b := make([]byte, 20)
			r.Read(b)
			voters = append(voters, sdk.ValAddress(b))
		}
		for _, va := range voters {
			var tuples oracletypes.ExchangeRateTuples
			pp := r.Perm(len(allPairs))
			nt := 1 + r.Pick(len(allPairs))
			for i := 0; i < nt; i++ {
				p := allPairs[pp[i]]
				tuples = append(tuples, oracletypes.ExchangeRateTuple{Pair: asset.Pair(p), ExchangeRate: rawToDec(genRate(r, base))})
			}
			k.Votes.Insert(ctx, va, oracletypes.NewAggregateExchangeRateVote(tuples, va))
		}
		// prevotes
		for _, v := range vals {
			if r.Chance(1, 2) {
				sb := uint64(r.Range(0, height))
				if r.Chance(1, 2) {
					sb = uint64(height) - params.VotePeriod + uint64(r.Range(0, 2)) - 1
					if int64(sb) < 0 {
						sb = 0
					}
				}
				k.Prevotes.Insert(ctx, v.addr, oracletypes.NewAggregateExchangeRatePrevote(oracletypes.AggregateVoteHash([]byte{1, 2}), v.addr, sb))
			}
		}
		// miss counters
		for _, v := range vals {
			if r.Chance(1, 3) {
				k.MissCounters.Insert(ctx, v.addr, uint64(r.Range(0, 50)))
			}
		}
		// reward allocations (through the real AllocateRewards, funded from a module account)
		nrw := r.Pick(4)
		for i := 0; i < nrw; i++ {
			total := sdk.NewCoins(sdk.NewInt64Coin(denoms.NIBI, r.Range(1, 1_000_000_000)))
			if err := testapp.FundModuleAccount(nibiru.BankKeeper, ctx, "inflation", total); err != nil {
				return err
			}
			// the allocation itself is an operation of the protocol: the model predicts the stored per-period amount and the balance
			modA := nibiru.AccountKeeper.GetModuleAddress(oracletypes.ModuleName)
			stB := renderOracleOut(nibiru, ctx, modA)
			periods := uint64(r.Range(1, 6))
			if r.Chance(1, 3) { // totals around a multiple of the period count: the remainder decides between truncation and rounding
				base := r.Range(1, 2_000_000)
				amt := base*int64(periods) + r.Range(0, int64(periods)-1)
				total = sdk.NewCoins(sdk.NewInt64Coin(denoms.NIBI, amt))
				_ = testapp.FundModuleAccount(nibiru.BankKeeper, ctx, "inflation", total)
			}
			nextID := k.RewardsID.Peek(ctx)
			var aerr error
			res := hx.Recover(func() string {
				aerr = k.AllocateRewards(ctx, "inflation", total, periods)
				if aerr != nil {
					return "err"
				}
				stA := renderOracleOut(nibiru, ctx, modA)
				return fmt.Sprintf("RW=%s BAL=%s", stA["RW"], stA["BAL"])
			})
			w.Count("allocate:" + strings.SplitN(res, " ", 2)[0][:2])
			w.Step(fmt.Sprintf("oracle allocate %d %s %d RW=%s BAL=%s", nextID, total.AmountOf(denoms.NIBI), periods, stB["RW"], stB["BAL"]), res)
			if aerr != nil {
				return aerr
			}
		}
		if r.Chance(1, 10) { // under-funded module account: drain it
			modAddr := nibiru.AccountKeeper.GetModuleAddress(oracletypes.ModuleName)
			bal := nibiru.BankKeeper.GetBalance(ctx, modAddr, denoms.NIBI)
			if bal.Amount.IsPositive() {
				_ = nibiru.BankKeeper.SendCoinsFromModuleToModule(ctx, oracletypes.ModuleName, "inflation", sdk.NewCoins(bal))
			}
		}

		// --- render the input state as the model sees it
		modAddr := nibiru.AccountKeeper.GetModuleAddress(oracletypes.ModuleName)
		var vItems []string
		allVals := nibiru.StakingKeeper.GetAllValidators(ctx)
		sort.Slice(allVals, func(i, j int) bool {
			return hex.EncodeToString(allVals[i].GetOperator()) < hex.EncodeToString(allVals[j].GetOperator())
		})
		pr := nibiru.StakingKeeper.PowerReduction(ctx)
		for _, v := range allVals {
			vItems = append(vItems, fmt.Sprintf("%s/%d/%s/%s", hex.EncodeToString(v.GetOperator()), v.GetConsensusPower(pr), b01(v.IsBonded()), b01(v.IsJailed())))
		}
		totalBonded := sdk.TokensToConsensusPower(nibiru.StakingKeeper.TotalBondedTokens(ctx), pr)
		op := fmt.Sprintf("oracle tally %d %s %d %d %s %d %d %s", height, params.VoteThreshold.BigInt(), params.MinVoters, params.ExpirationBlocks,
			params.RewardBand.BigInt(), totalBonded, params.VotePeriod, renderOracleState(nibiru, ctx, vItems, next, modAddr))
		outstanding := func() map[string]sdkmath.Int {
			m := map[string]sdkmath.Int{}
			for _, v := range allVals {
				m[hex.EncodeToString(v.GetOperator())] = nibiru.DistrKeeper.GetValidatorOutstandingRewardsCoins(ctx, v.GetOperator()).AmountOf(denoms.NIBI).TruncateInt()
			}
			return m
		}
		before := outstanding()
		res := hx.Recover(func() string {
			perfs := k.UpdateExchangeRates(ctx)
			var pItems []string
			for _, p := range perfs {
				pItems = append(pItems, fmt.Sprintf("%s/%d/%d/%d/%d", hex.EncodeToString(p.ValAddress), p.RewardWeight, p.WinCount, p.AbstainCount, p.MissCount))
			}
			sort.Strings(pItems)
			after := outstanding()
			var paid []string
			for a, v := range after {
				d := v.Sub(before[a])
				if !d.IsZero() {
					paid = append(paid, fmt.Sprintf("%s/%s", a, d))
				}
			}
			sort.Strings(paid)
			st := renderOracleOut(nibiru, ctx, modAddr)
			return fmt.Sprintf("R=%s PERF=%s MC=%s W=%s RW=%s PAID=%s PV=%s NV=%d BAL=%s", st["R"], items(pItems), st["MC"], st["W"], st["RW"], items(paid), st["PV"],
				len(k.Votes.Iterate(ctx, collections.Range[sdk.ValAddress]{}).Keys()), st["BAL"])
		})
		if strings.Contains(res, "R=-") {
			w.Count("tally:noprice")
		} else {
			w.Count("tally:price")
		}
		if res == "panic" {
			w.Count("panic")
		}
		w.Step(op, res)

		// --- slash window on the resulting state
		if r.Chance(1, 2) {
			sp := params
			sp.SlashWindow = sp.VotePeriod * uint64(r.Range(1, 40))
			if r.Chance(1, 3) {
				sp.SlashWindow += uint64(r.Range(0, int64(sp.VotePeriod)-1))
			}
			sp.MinValidPerWindow = sdkmath.LegacyNewDecWithPrec(r.Range(0, 1000), 3)
			sp.SlashFraction = sdkmath.LegacyNewDecWithPrec(r.Range(0, 100), 3)
			k.Params.Set(ctx, sp)
			for _, v := range vals { // more counters so that the boundary is hit
				if r.Chance(1, 2) {
					k.MissCounters.Insert(ctx, v.addr, uint64(r.Range(0, int64(sp.SlashWindow/sp.VotePeriod)+2)))
				}
			}
			vItems = nil
			for _, v := range nibiru.StakingKeeper.GetAllValidators(ctx) {
				vItems = append(vItems, fmt.Sprintf("%s/%d/%s/%s", hex.EncodeToString(v.GetOperator()), v.GetConsensusPower(pr), b01(v.IsBonded()), b01(v.IsJailed())))
			}
			sort.Strings(vItems)
			st := renderOracleOut(nibiru, ctx, modAddr)
			op := fmt.Sprintf("oracle slash %d %d %s V=%s MC=%s", sp.SlashWindow, sp.VotePeriod, sp.MinValidPerWindow.BigInt(), items(vItems), st["MC"])
			jailedBefore := map[string]bool{}
			tokensBefore := map[string]sdkmath.Int{}
			for _, v := range nibiru.StakingKeeper.GetAllValidators(ctx) {
				jailedBefore[hex.EncodeToString(v.GetOperator())] = v.IsJailed()
				tokensBefore[hex.EncodeToString(v.GetOperator())] = v.Tokens
			}
			res := hx.Recover(func() string {
				k.SlashAndResetMissCounters(ctx)
				var slashed []string
				for _, v := range nibiru.StakingKeeper.GetAllValidators(ctx) {
					a := hex.EncodeToString(v.GetOperator())
					if v.IsJailed() && !jailedBefore[a] {
						slashed = append(slashed, a)
						if !sp.SlashFraction.IsZero() && !v.Tokens.LT(tokensBefore[a]) && tokensBefore[a].IsPositive() &&
							sp.SlashFraction.MulInt(tokensBefore[a]).TruncateInt().IsPositive() {
							slashed = append(slashed, a+"!not-slashed")
						}
					} else if v.Tokens.LT(tokensBefore[a]) {
						slashed = append(slashed, a+"!slashed-not-jailed")
					}
				}
				sort.Strings(slashed)
				return fmt.Sprintf("SLASHED=%s MC=%s", items(slashed), renderOracleOut(nibiru, ctx, modAddr)["MC"])
			})
			if strings.Contains(res, "SLASHED=-") {
				w.Count("slash:none")
			} else {
				w.Count("slash:some")
			}
			w.Step(op, res)
		}

		// --- the end blocker's two gates, through the real EndBlocker: which of the tally and the slash-and-reset run at a height,
		// for vote periods and slash windows that need not divide each other (Params.Validate only asks SlashWindow >= VotePeriod)
		for g := 0; g < 3; g++ {
			gp := params
			gp.VotePeriod = uint64(r.Range(1, 8))
			gp.SlashWindow = gp.VotePeriod + uint64(r.Range(0, 3*int64(gp.VotePeriod)))
			gp.MinValidPerWindow = sdkmath.LegacyZeroDec() // nobody is slashed here: only the gates are observed
			k.Params.Set(ctx, gp)
			// aim at heights where at least one of the two periods ends
			base := uint64(r.Range(1, 40))
			var h int64
			switch r.Pick(3) {
			case 0:
				h = int64(base*gp.VotePeriod) - 1
			case 1:
				h = int64(base*gp.SlashWindow) - 1
			default:
				h = r.Range(1, 200)
			}
			if h < 1 {
				h = 1
			}
			gctx := ctx.WithBlockHeight(h)
			marker := vals[0].addr
			k.MissCounters.Insert(gctx, marker, 1)
			k.Votes.Insert(gctx, marker, oracletypes.NewAggregateExchangeRateVote(oracletypes.ExchangeRateTuples{}, marker))
			res := hx.Recover(func() string {
				oracle.EndBlocker(gctx, k)
				_, gerr := k.Votes.Get(gctx, marker)
				tally := gerr != nil // clearVotesAndPrevotes removes every vote
				slash := len(k.MissCounters.Iterate(gctx, collections.Range[sdk.ValAddress]{}).Keys()) == 0 // the reset removes every counter
				return fmt.Sprintf("tally=%s slash=%s", b01(tally), b01(slash))
			})
			w.Count("gates:" + res)
			w.Step(fmt.Sprintf("oracle gates %d %d %d", h, gp.VotePeriod, gp.SlashWindow), res)
			_ = k.Votes.Delete(gctx, marker)
		}
	}
	return nil
}

func renderOracleOut(nibiru *app.NibiruApp, ctx sdk.Context, modAddr sdk.AccAddress) map[string]string {
	k := nibiru.OracleKeeper
	var rItems, mcItems, wItems, rwItems, pvItems []string
	for _, kv := range k.ExchangeRates.Iterate(ctx, collections.Range[asset.Pair]{}).KeyValues() {
		rItems = append(rItems, fmt.Sprintf("%s/%s/%d", kv.Key, kv.Value.ExchangeRate.BigInt(), kv.Value.CreatedBlock))
	}
	for _, kv := range k.MissCounters.Iterate(ctx, collections.Range[sdk.ValAddress]{}).KeyValues() {
		mcItems = append(mcItems, fmt.Sprintf("%s/%d", hex.EncodeToString(kv.Key), kv.Value))
	}
	for _, p := range k.WhitelistedPairs.Iterate(ctx, collections.Range[asset.Pair]{}).Keys() {
		wItems = append(wItems, string(p))
	}
	for _, kv := range k.Rewards.Iterate(ctx, collections.Range[uint64]{}).KeyValues() {
		rwItems = append(rwItems, fmt.Sprintf("%d/%d/%s", kv.Key, kv.Value.VotePeriods, sdk.Coins(kv.Value.Coins).AmountOf(denoms.NIBI)))
	}
	for _, kv := range k.Prevotes.Iterate(ctx, collections.Range[sdk.ValAddress]{}).KeyValues() {
		pvItems = append(pvItems, fmt.Sprintf("%s/%d", hex.EncodeToString(kv.Key), kv.Value.SubmitBlock))
	}
	sort.Strings(mcItems)
	sort.Strings(pvItems)
	return map[string]string{"R": items(rItems), "MC": items(mcItems), "W": items(wItems), "RW": items(rwItems), "PV": items(pvItems),
		"BAL": nibiru.BankKeeper.GetBalance(ctx, modAddr, denoms.NIBI).Amount.String()}
}

func renderOracleState(nibiru *app.NibiruApp, ctx sdk.Context, vItems []string, next []asset.Pair, modAddr sdk.AccAddress) string {
	k := nibiru.OracleKeeper
	st := renderOracleOut(nibiru, ctx, modAddr)
	var bItems, nItems []string
	for _, kv := range k.Votes.Iterate(ctx, collections.Range[sdk.ValAddress]{}).KeyValues() {
		var ts []string
		for _, t := range kv.Value.ExchangeRateTuples {
			ts = append(ts, fmt.Sprintf("%s/%s", t.Pair, t.ExchangeRate.BigInt()))
		}
		bItems = append(bItems, hex.EncodeToString(kv.Key)+"@"+strings.Join(ts, ";"))
	}
	for _, p := range next {
		nItems = append(nItems, string(p))
	}
	return fmt.Sprintf("V=%s W=%s N=%s R=%s B=%s RW=%s MC=%s PV=%s BAL=%s", items(vItems), st["W"], items(nItems), st["R"], items(bItems), st["RW"], st["MC"], st["PV"], st["BAL"])
}
