/-
  NibiruModel.Concurrency — the one piece of mutable state that block execution and queries share in x/evm: the process-wide
  pointer `Keeper.Bank.StateDB` (x/evm/keeper/bank_extension.go).
    NewStateDB publishes the StateDB it creates                                   (bank_extension.go: NewStateDB)
    EthereumTx / ConvertCoinToEvm / CreateFunToken use `k.Bank.StateDB` if it is non-nil, else create and publish one, and
      clear the pointer when they return — in DeliverTx and in Simulate alike      (msg_server.go, funtoken_from_*.go)
    EthCall / EstimateGas create a private `statedb.New` that is not published     (grpc_query.go)
    every bank operation of the NibiruBankKeeper that moves the gas token mirrors the balance it sees IN ITS OWN CONTEXT into
      whatever StateDB the pointer designates                                      (SyncStateDBWithAccount)
  Two threads: T (the block: DeliverTx on the deliver-state context) and Q (one query / simulation on its own branch of the last
  committed state).  Balances are integers per account; a StateDB is a balance view bound to the context it was created on.
-/
import NibiruModel.Prelude
namespace Nibiru.Concurrency

inductive Who where | T | Q
deriving Repr, DecidableEq

structure W where
  storeT : Nat → Int := fun _ => 0      -- bank balances in the block's context
  storeQ : Nat → Int := fun _ => 0      -- … in the query's branch
  dbT : Nat → Int := fun _ => 0         -- the StateDB created by T (bound to T's context)
  dbQ : Nat → Int := fun _ => 0         -- the StateDB created by Q (bound to Q's branch)
  ptr : Option Who := none              -- Keeper.Bank.StateDB: whose StateDB it designates
  hT : Option Who := none               -- the StateDB thread T works on
  hQ : Option Who := none               -- the StateDB thread Q works on

inductive Step where
  | useOrPublish                 -- stateDB := k.Bank.StateDB; if nil { stateDB = k.NewStateDB(ctx) }
  | privateNew                   -- statedb.New(ctx, …), not published
  | evmAdd (a : Nat) (d : Int)   -- a balance change made by the interpreter in the thread's StateDB
  | bankAdd (a : Nat) (d : Int)  -- a bank operation on the thread's own context, then SyncStateDBWithAccount
  | bankOther (a : Nat) (d : Int) -- a bank operation that moves another denom than the gas token: every override guards the sync with
                                 -- findEtherBalanceChangeFromCoins (T1 fact), so nothing is mirrored; the tracked balances do not move
  | commit                       -- StateDB.Commit: the view is written into the context the StateDB is bound to
  | flush                        -- CommitCacheCtx at a precompile entry (OnRunStart): the same write-back, in the middle of a call;
                                 -- Keeper.SetAccBalance writes through the embedded BaseKeeper, so nothing is mirrored (T1 fact)
  | clear                        -- defer func() { k.Bank.StateDB = nil }()
deriving Repr, DecidableEq

def upd (f : Nat → Int) (a : Nat) (v : Int) : Nat → Int := fun x => if x = a then v else f x

def store (w : W) : Who → Nat → Int | .T => w.storeT | .Q => w.storeQ
def db (w : W) : Who → Nat → Int | .T => w.dbT | .Q => w.dbQ
def setStore (w : W) (p : Who) (f : Nat → Int) : W := match p with | .T => { w with storeT := f } | .Q => { w with storeQ := f }
def setDb (w : W) (p : Who) (f : Nat → Int) : W := match p with | .T => { w with dbT := f } | .Q => { w with dbQ := f }
def handle (w : W) : Who → Option Who | .T => w.hT | .Q => w.hQ
def setHandle (w : W) (me : Who) (h : Option Who) : W := match me with | .T => { w with hT := h } | .Q => { w with hQ := h }

def exec (me : Who) (w : W) : Step → W
  | .useOrPublish =>
    match w.ptr with
    | some p => setHandle w me (some p)
    | none => setHandle { (setDb w me (store w me)) with ptr := some me } me (some me)
  | .privateNew => setHandle (setDb w me (store w me)) me (some me)
  | .evmAdd a d =>
    match handle w me with
    | some p => setDb w p (upd (db w p) a (db w p a + d))
    | none => w
  | .bankAdd a d =>
    let w1 := setStore w me (upd (store w me) a (store w me a + d))
    match w1.ptr with
    | some p => setDb w1 p (upd (db w1 p) a (store w1 me a))
    | none => w1
  | .bankOther _ _ => w
  | .commit =>
    match handle w me with
    | some p => setStore w p (db w p)
    | none => w
  | .flush =>
    match handle w me with
    | some p => setStore w p (db w p)
    | none => w
  | .clear => { w with ptr := none }

/-- an interleaving: `true` = the block thread takes the next step -/
def run (w : W) : List Step → List Step → List Bool → W
  | [], qs, _ => qs.foldl (exec .Q) w
  | ts, [], _ => ts.foldl (exec .T) w
  | t :: ts, q :: qs, [] => run (exec .T w t) ts (q :: qs) []
  | t :: ts, q :: qs, b :: bs => if b then run (exec .T w t) ts (q :: qs) bs else run (exec .Q w q) (t :: ts) qs bs

def runAlone (w : W) (ts : List Step) : W := ts.foldl (exec .T) w

/-- steps of query kinds that neither read nor write the shared pointer: EthCall / EstimateGas without a bank-moving
    precompile (private StateDB, interpreter steps, the flush of that private StateDB when a precompile is entered), and plain
    reads (no steps at all) -/
def Step.isolated : Step → Bool
  | .privateNew | .evmAdd _ _ | .flush | .bankOther _ _ => true
  | _ => false

/-! concrete programs -/
/-- one Ethereum tx in DeliverTx: value moves inside the EVM, a precompile moves 5 from account 2 to account 3 through the bank -/
def blockTx : List Step := [.useOrPublish, .evmAdd 1 (-3), .bankAdd 2 (-5), .bankAdd 3 5, .commit, .clear]
/-- eth_call of a contract that makes the FunToken precompile move 7 from account 2 to account 4 -/
def ethCallBank : List Step := [.privateNew, .bankAdd 2 (-7), .bankAdd 4 7]
/-- Simulate of an Ethereum tx (gas estimation through the tx service) -/
def simulateEthTx : List Step := [.useOrPublish, .evmAdd 5 9, .commit, .clear]
/-- eth_call that carries value into a precompile query method: the value transfer dirties the caller in the private StateDB, the
    precompile entry flushes it into the query's own branch -/
def ethCallValuePrecompileQuery : List Step := [.privateNew, .evmAdd 2 (-7), .evmAdd 8 7, .flush]
/-- eth_call that runs FunToken.sendToBank of a coin-born mapping: interpreter steps in the private StateDB (the ERC20 burn), the
    precompile entry's flush, and a bank operation on another denom -/
def ethCallSendToBankOther : List Step := [.privateNew, .evmAdd 6 (-4), .flush, .bankOther 6 4]
def genesis : W := { storeT := fun a => if a ≤ 5 then 100 else 0, storeQ := fun a => if a ≤ 5 then 100 else 0 }

/-! ### line protocol: the model's prediction for the harness's interleaving cases

  The harness executes the block's Ethereum transaction twice from the same state — alone, and with one query run to completion
  at a yield point — and reports whether anything the block commits differs.  The model answers the same question for the
  corresponding programs and schedule. -/

/-- what the query kinds of the harness do to the shared pointer, the StateDBs and the bank (amounts are immaterial, accounts are
    distinct from the block transaction's unless the real query touches the same account) -/
def queryProgram (kind : String) (q : Int) : List Step :=
  match kind with
  | "bank-balance" => []
  | "ethcall-view" | "estimate-gas" | "trace-call" => [.privateNew, .evmAdd 9 1]
  | "ethcall-value-precompile-query" => [.privateNew, .evmAdd 6 (-q), .evmAdd 8 q, .flush]
  | "ethcall-funtoken-sendtobank" => [.privateNew, .evmAdd 6 (-q), .flush, .bankOther 6 q]
  | "ethcall-bank-precompile" => [.privateNew, .flush, .bankAdd 6 (-q), .bankAdd 4 q]
  | "simulate-ethtx" => [.useOrPublish, .evmAdd 6 (-q), .evmAdd 5 q, .commit, .clear]
  | "simulate-ethtx-bad" => [.useOrPublish, .evmAdd 7 1, .commit, .clear]
  | "simulate-convert" => [.useOrPublish, .bankOther 6 (-q), .evmAdd 9 q, .commit, .clear]
  | "simulate-convert-bad" => []          -- the mapping lookup fails before any StateDB is adopted or any coin moves
  -- CreateFunToken first deducts its fee in the gas token through the bank wrapper (mirrored into whatever StateDB is
  -- designated), then adopts / publishes a StateDB for the ERC20 metadata lookup and clears the pointer when it returns
  | "simulate-createft-bad" | "simulate-createft-erc20" =>
    [.bankAdd 6 (-q), .bankAdd 8 q, .bankAdd 8 (-q), .useOrPublish, .clear]
  | _ => []

/-- the simulation that is in flight when the block's transaction starts: an Ethereum tx that reaches the yield point after
    adopting / publishing a StateDB -/
def inFlightSimulation : List Step := [.useOrPublish, .evmAdd 7 1, .bankAdd 6 (-2), .bankAdd 4 2, .commit, .clear]

def accountsWatched : List Nat := [0, 1, 2, 3, 4, 5, 6, 7, 8, 9]

def predict (yield kind : String) (q : Int) : String :=
  let (qs, sched) : List Step × List Bool :=
    match yield with
    | "between-txs" => (queryProgram kind q, List.replicate 8 false)
    | "in-tx-before-bank-op" => (queryProgram kind q, [true, true] ++ List.replicate 8 false)
    | "in-tx-after-bank-op" => (queryProgram kind q, [true, true, true, true] ++ List.replicate 8 false)
    | "tx-starts-while-simulation-in-flight" => (inFlightSimulation, [false, false] ++ List.replicate 8 true)
    | _ => ([], [])
  let w := run genesis blockTx qs sched
  let w0 := runAlone genesis blockTx
  if accountsWatched.all (fun a => w.storeT a == w0.storeT a) then "same" else "DIFFERS"

def kvOf (args : List String) (key : String) : String :=
  match args.find? (fun a => a.startsWith (key ++ "=")) with
  | some a => (a.drop (key.length + 1)).toString
  | none => ""

def step (args : List String) : String :=
  match args with
  | "case" :: rest => predict (kvOf rest "yield") (kvOf rest "q") ((parseInt? (kvOf rest "qamt")).getD 1)
  -- the executions share no mutable data besides the designated StateDB pointer: each builds its own deploy input
  | "probe" :: _ => "same"
  | _ => "bad-op"

end Nibiru.Concurrency
