/-
  NibiruModel.DevGas — x/devgas/v1: the payout ante decorator (ante/ante.go: getAllowedFees, getWithdrawAddressesFromMsgs,
  FeePayLogic, settleFeePayments) and the fee-share registry handlers (keeper/msg_server.go). wasm `ContractInfo` is a parameter
  (`contracts`). Messages run as on the chain: ValidateBasic, then the handler on a branched store discarded on error.
-/
import NibiruModel.SdkDec
namespace Nibiru.DevGas
open Nibiru.Dec

structure Params where
  enabled : Bool := true
  share   : Int := 0                 -- DeveloperShares (raw decimal)
  allowed : List String := []
deriving Repr, Inhabited

structure ContractInfo where
  admin   : String
  creator : String
deriving Repr, Inhabited, DecidableEq

structure FeeShare where
  deployer   : String
  withdrawer : String
deriving Repr, Inhabited, DecidableEq

structure State where
  params    : Params := {}
  valid     : List String := []
  govMod    : String := ""
  contracts : List (String × ContractInfo) := []      -- wasm keeper: address → info
  registry  : List (String × FeeShare) := []          -- DevGasStore
deriving Repr, Inhabited

abbrev Coins := List (String × Int)     -- sorted by denom, positive amounts

def addCoin (cs : Coins) (d : String) (a : Int) : Coins :=
  match cs with
  | [] => [(d, a)]
  | (d', a') :: t => if d < d' then (d, a) :: (d', a') :: t else if d = d' then (d', a' + a) :: t else (d', a') :: addCoin t d a

/-- `getAllowedFees`: an empty allow-list admits everything; otherwise a fee coin is kept iff its denom is on the list — counted
    once (fix: commit "devgas getAllowedFees counts each fee coin once"; a denom listed twice used to be counted twice) -/
def allowedFees (p : Params) (fees : Coins) : Coins :=
  if p.allowed.isEmpty then fees else fees.filter (fun c => p.allowed.contains c.1)

/-- `FeePayLogic`: per denom `DeveloperShares.MulInt(amount).QuoInt64(numPairs).RoundInt()`, zero amounts dropped -/
def feePay (fees : Coins) (share : Int) (n : Nat) : Coins :=
  fees.filterMap (fun c =>
    let r := roundInt (quoInt (mulInt share c.2) n)
    if r = 0 then none else some (c.1, r))

/-- `getWithdrawAddressesFromMsgs`: `none` = a contract address does not decode (the decorator fails);
    targets are the contract addresses of the top-level MsgExecuteContract messages, in order -/
def recipients (s : State) : List String → Option (List String)
  | [] => some []
  | c :: cs =>
    if !s.valid.contains c then none
    else match recipients s cs with
      | none => none
      | some rest =>
        match AList.find? s.registry c with
        | some fs => if s.valid.contains fs.withdrawer then some (fs.withdrawer :: rest) else some rest
        | none => some rest

def coinsLE (a b : Coins) : Bool := a.all (fun c => decide (c.2 ≤ ((AList.find? b c.1).getD 0)))
def subCoins (b a : Coins) : Coins := b.map (fun c => (c.1, c.2 - ((AList.find? a c.1).getD 0)))

inductive PayRes where
  | none                              -- disabled or nobody to pay
  | paid (each : Coins) (to : List String)
  | fail
deriving Repr

/-- `devGasPayout`: `collector` is the fee collector's balance (after fee deduction); the payments are made one by one and the
    whole tx fails as soon as one cannot be covered -/
def payout (s : State) (fees : Coins) (targets : List String) (collector : Coins) : PayRes :=
  if !s.params.enabled then .none
  else match recipients s targets with
    | none => .fail
    | some [] => .none
    | some to =>
      let each := feePay (allowedFees s.params fees) s.params.share to.length
      let rec pay (bal : Coins) : Nat → Bool
        | 0 => true
        | k + 1 => if coinsLE each bal then pay (subCoins bal each) k else false
      if pay collector to.length then .paid each to else .fail

/-! ### registry -/

inductive Err where | invalid | disabled | exists | notfound | unauthorized | badwithdrawer | panic
deriving Repr, DecidableEq

def Err.render : Err → String
  | .invalid => "invalid" | .disabled => "disabled" | .exists => "exists" | .notfound => "notfound"
  | .unauthorized => "unauthorized" | .badwithdrawer => "badwithdrawer" | .panic => "panic"

def firstErr : List (Bool × Err) → Option Err
  | [] => none
  | (bad, e) :: rest => if bad then some e else firstErr rest

def run (s : State) (guard : Option Err) (effect : State) : State × Option Err :=
  match guard with
  | some e => (s, some e)
  | none => (effect, none)

def hasContract (s : State) (a : String) : Bool := (AList.find? s.contracts a).isSome

/-- `isContractCreatedFromFactory` -/
def isFactory (s : State) (info : ContractInfo) (sender : String) : Bool :=
  if info.admin = s.govMod then true
  else if info.admin = "" then s.valid.contains info.creator && hasContract s info.creator
  else if info.admin ≠ sender then s.valid.contains info.admin && hasContract s info.admin
  else false

/-- `GetContractAdminOrCreatorAddress` succeeds -/
def isAdminOrCreator (info : ContractInfo) (sender : String) : Bool :=
  if info.admin = "" then info.creator == sender else info.admin == sender

/-- `RegisterFeeShare` -/
def registerGuard (s : State) (contract sender withdrawer : String) : Option Err :=
  firstErr [(!s.valid.contains sender || !s.valid.contains contract || (withdrawer ≠ "" && !s.valid.contains withdrawer), .invalid),
            (!s.params.enabled, .disabled), ((AList.find? s.registry contract).isSome, .exists),
            (!s.valid.contains withdrawer, .invalid)] <|>
  (match AList.find? s.contracts contract with
   | none => some .panic          -- nil ContractInfo is dereferenced: the tx panics and is rejected
   | some info =>
     if isFactory s info sender then (if withdrawer ≠ contract then some .badwithdrawer else none)
     else if isAdminOrCreator info sender then none else some .unauthorized)

def registerEffect (s : State) (contract sender withdrawer : String) : State :=
  let deployer := match AList.find? s.contracts contract with
    | some info => if isFactory s info sender then contract else sender
    | none => sender
  { s with registry := AList.set s.registry contract { deployer := deployer, withdrawer := withdrawer } }

def register (s : State) (contract sender withdrawer : String) :=
  run s (registerGuard s contract sender withdrawer) (registerEffect s contract sender withdrawer)

def authGuard (s : State) (contract sender : String) : Option Err :=
  match AList.find? s.contracts contract with
  | none => some .unauthorized
  | some info => if isAdminOrCreator info sender then none else some .unauthorized

/-- `UpdateFeeShare` -/
def updateGuard (s : State) (contract sender withdrawer : String) : Option Err :=
  firstErr [(!s.valid.contains sender || !s.valid.contains contract || !s.valid.contains withdrawer, .invalid),
            (!s.params.enabled, .disabled), ((AList.find? s.registry contract).isNone, .notfound),
            ((AList.find? s.registry contract).map (·.withdrawer) == some withdrawer, .exists)] <|>
  authGuard s contract sender

def updateEffect (s : State) (contract withdrawer : String) : State :=
  match AList.find? s.registry contract with
  | some fs => { s with registry := AList.set s.registry contract { fs with withdrawer := withdrawer.toLower } }
  | none => s

def update (s : State) (contract sender withdrawer : String) :=
  run s (updateGuard s contract sender withdrawer) (updateEffect s contract withdrawer)

/-- `CancelFeeShare` -/
def cancelGuard (s : State) (contract sender : String) : Option Err :=
  firstErr [(!s.valid.contains sender || !s.valid.contains contract, .invalid), (!s.params.enabled, .disabled),
            ((AList.find? s.registry contract).isNone, .notfound)] <|>
  authGuard s contract sender

def cancel (s : State) (contract sender : String) :=
  run s (cancelGuard s contract sender) { s with registry := AList.erase s.registry contract }

/-! ### line protocol -/

def parseCoins (s : String) : Coins :=
  (parseItems "," s).filterMap (fun it => match it.splitOn "=" with
    | [d, a] => (parseInt? a).map (fun n => (d, n))
    | _ => none)

def renderCoins (c : Coins) : String := renderItems "," (c.map (fun x => s!"{x.1}={x.2}"))

def tok (s : String) : String := if s = "_" then "" else s

def renderReg (s : State) : String :=
  renderItems "," ((sortBy (fun a b => decide (a.1 ≤ b.1)) s.registry).map (fun x => s!"{x.1}/{x.2.deployer}/{x.2.withdrawer}"))

def fin (r : State × Option Err) : State × String :=
  (r.1, (match r.2 with | none => "ok" | some e => e.render) ++ " REG=" ++ renderReg r.1)

def step (s : State) (args : List String) : State × String :=
  match args with
  | "reset" :: en :: share :: rest =>
    match parseInt? share with
    | some share =>
      let sec := fun k => (section? rest k).getD "-"
      let cs := (parseItems "," (sec "CONTRACTS")).filterMap (fun it => match it.splitOn "/" with
        | [a, ad, cr] => some (a, ({ admin := tok ad, creator := tok cr } : ContractInfo))
        | _ => none)
      let reg := (parseItems "," (sec "REG")).filterMap (fun it => match it.splitOn "/" with
        | [a, d, w] => some (a, ({ deployer := tok d, withdrawer := tok w } : FeeShare))
        | _ => none)
      let s' : State := { params := { enabled := en = "1", share := share, allowed := parseItems "," (sec "ALLOWED") },
                          valid := parseItems "," (sec "VALID"), govMod := sec "GOV", contracts := cs, registry := reg }
      (s', "ok REG=" ++ renderReg s')
    | none => (s, "bad-op")
  | ["payout", fees, targets, collector] =>
    match payout s (parseCoins fees) (parseItems "," targets) (parseCoins collector) with
    | .none => (s, "none")
    | .fail => (s, "fail")
    | .paid each to => (s, s!"paid EACH={renderCoins each} TO={renderItems "," to}")
  | ["setadmin", c, a] =>
    -- wasm MsgUpdateAdmin / MsgClearAdmin by the current admin: the contract info changes, the registry does not
    let s' := match AList.find? s.contracts c with
      | some info => { s with contracts := AList.set s.contracts c { info with admin := tok a } }
      | none => s
    (s', "ok REG=" ++ renderReg s')
  | ["register", c, snd, w] => fin (register s c snd (tok w))
  | ["update", c, snd, w] => fin (update s c snd (tok w))
  | ["cancel", c, snd] => fin (cancel s c snd)
  | _ => (s, "bad-op")

end Nibiru.DevGas
