/-
  C04 — Call-frame atomicity across EVM state and precompile side effects.
  Theorems about NibiruModel.StateDB. On the unchanged tree the full property is FALSE (known finding, see DESIGN.md §7 C04):
  the counterexample theorems below are closed terms checked by the kernel and replayed on the real StateDB by the probes.
-/
import NibiruModel.StateDB
import NibiruProofs.SDBRevert
import NibiruProofs.SDBCommit
import Generated.Facts
namespace Nibiru.SDB

/-! ### counterexamples (the property fails for the code as it is) -/

/-- account 1 exists (contract), slot 0 is empty -/
def cex0 : S := { txStore := { accts := [(1, { nonce := 1, codeHash := 7, balance := 5 })] } }

/-- **Lost write.** `SetState(1, slot 0 := 7)` in the outer frame; then a frame that calls a precompile is reverted; the
    transaction commits. Inside the transaction the slot reads 7, but the committed store has 0: a change made *outside* the
    reverted frame is lost. (The intermediate flush of `OnRunStart` set `OriginStorage[0] = 7` and the dirty count to 0; the
    journal restores neither, and the final commit skips slots equal to the origin.) -/
theorem C04_counterexample_lost_write :
    let s1 := setState cex0 1 0 7
    let (s2, id) := snapshot s1
    let (s3, _) := precompile s2 .none
    let s4 := (revertToSnapshot s3 id).getD s3
    (getState s4 1 0).2 = 7 ∧ (commit s4).txStore.slot 1 0 = 0 := by
  decide

/-- account 0 holds 100 unibi, account 3 does not exist and has not been touched in this transaction -/
def cex1 : S := { txStore := { accts := [(0, { nonce := 0, codeHash := 0, balance := 100 })] } }

/-- **Stale balance.** A precompile moves 16 unibi from 0 to the untouched account 3 inside a frame that is then reverted. The
    bank (cache context) is restored, but the StateDB keeps showing 16·10^12 wei for account 3: the object was loaded *after*
    the bank move, so the journaled "previous balance" is already the new one. EVM view and bank view disagree. -/
theorem C04_counterexample_stale_balance :
    let (sa, _) := readAcc cex1 0          -- the sender is already loaded, as in a real transaction
    let (s1, id) := snapshot sa
    let (s2, r) := precompile s1 (.moveUnibi 0 3 16)
    let s3 := (revertToSnapshot s2 id).getD s2
    r = "ok" ∧ (readAcc s3 3).2.balance = 16 * weiPerUnibi ∧ ((curStore s3).acct 3) = none ∧
    (readAcc s3 0).2.balance = 100 * weiPerUnibi := by
  decide

/-! ### what does hold -/

theorem getObj_cache (s : S) (a : Nat) : (getObj s a).1.cache = s.cache ∧ (getObj s a).1.txStore = s.txStore ∧
    (getObj s a).1.journal = s.journal := by
  unfold getObj
  split
  · exact ⟨rfl, rfl, rfl⟩
  · split <;> exact ⟨rfl, rfl, rfl⟩

/-- reverting any journal entry other than a precompile entry leaves the multistore (cache context) untouched -/
theorem revertEntry_cache (s : S) (e : Entry) (h : ∀ c, e ≠ .precompile c) : (revertEntry s e).cache = s.cache := by
  cases e with
  | precompile c => exact absurd rfl (h c)
  | createObject a => rfl
  | resetObject a p => rfl
  | refund p => rfl
  | addLog => rfl
  | alAddr a => rfl
  | alSlot a k => rfl
  | suicide a p b =>
    simp only [revertEntry]
    have := getObj_cache s a
    split <;> simp_all [setObj]
  | balance a p =>
    simp only [revertEntry]
    have := getObj_cache s a
    split <;> simp_all [setObj]
  | nonce a p =>
    simp only [revertEntry]
    have := getObj_cache s a
    split <;> simp_all [setObj]
  | code a p =>
    simp only [revertEntry]
    have := getObj_cache s a
    split <;> simp_all [setObj]
  | storage a k p =>
    simp only [revertEntry]
    have := getObj_cache s a
    split <;> simp_all [setObj]

/-- **The multistore side of a precompile call is undone by its journal entry**: reverting the `PrecompileCalled` entry puts the
    cache context back to exactly the store saved when the call started — every bank / wasm / other-module write of the call and
    the flush of dirty EVM state that preceded it disappear together. -/
theorem C04_precompile_entry_restores_multistore (s : S) (saved : Store) :
    (revertEntry s (.precompile saved)).cache = some saved := rfl

theorem getOrNew_cache (s : S) (a : Nat) : (getOrNew s a).1.cache = s.cache ∧ (getOrNew s a).1.txStore = s.txStore := by
  unfold getOrNew
  have := getObj_cache s a
  split
  · simp_all
  · simp_all [setObj, append]

theorem setBalance_cache (s : S) (a : Nat) (v : Int) : (setBalance s a v).cache = s.cache ∧ (setBalance s a v).txStore = s.txStore := by
  unfold setBalance
  have := getOrNew_cache s a
  simp_all [setObj, append]

theorem setBalance_objs (s : S) (a : Nat) (v : Int) :
    ∃ o, AList.find? (setBalance s a v).objs a = some o ∧ o.balance = v := by
  unfold setBalance
  simp only [setObj, append]
  exact ⟨_, AList.find?_set_self _ _ _, rfl⟩

theorem readAcc_of_obj (s : S) (a : Nat) (o : Obj) (h : AList.find? s.objs a = some o) : (readAcc s a).2.balance = o.balance := by
  unfold readAcc getObj
  simp [h]

theorem curStore_setBalance (s : S) (a : Nat) (v : Int) : curStore (setBalance s a v) = curStore s := by
  unfold curStore; rw [(setBalance_cache s a v).1, (setBalance_cache s a v).2]

/-- **Balance views agree right after a bank-moving precompile returns**: an account whose balance the bank extension mirrors
    (`SyncStateDBWithAccount`) reads, in the StateDB, exactly the bank balance of the current context (in wei). -/
theorem C04_balance_views_agree_after_sync (s : S) (a : Nat) :
    (readAcc (syncBalance s a) a).2.balance = ((((curStore (syncBalance s a)).acct a).map (·.balance)).getD 0) * weiPerUnibi := by
  unfold syncBalance
  obtain ⟨o, ho, hb⟩ := setBalance_objs s a (((((curStore s).acct a).map (·.balance)).getD 0) * weiPerUnibi)
  rw [readAcc_of_obj _ a o ho, hb, curStore_setBalance]

/-- **C04 (partial: frames without a precompile call).** A call frame is `Snapshot`, any sequence of EVM writes (balance, nonce,
    code, storage, self-destruct, logs, refunds, access list) on accounts the interpreter has read, and — on failure —
    `RevertToSnapshot`: every observable of the StateDB is then exactly what it was before the frame, for every such sequence
    (NibiruProofs/SDBRevert.lean). The counterexamples above show that this stops being true as soon as the frame contains a Nibiru
    precompile call (the intermediate flush is not journaled). -/
theorem C04_frame_revert_restores_partial {A : List Nat} (s : S) (hc : Cached A s) (hrev : ∀ r ∈ s.revisions, r.1 < s.nextRev)
    (ws : List WOp) (hw : ∀ w ∈ ws, ∀ a, w.acct = some a → a ∈ A) :
    ∃ s3, revertToSnapshot (applyAll (snapshot s).1 ws) (snapshot s).2 = some s3 ∧ Eqv A s3 s :=
  snapshot_revert_restores s hc hrev ws hw

/-- **C04 (partial: transactions without a precompile call) — the committed state is the final EVM view.** Start from any
    well-formed StateDB without a precompile cache context (e.g. a fresh one over any store), apply ANY sequence of interpreter
    writes, and `Commit`: for every live account the sequence dirtied, the store then holds exactly what the EVM saw at the end
    (nonce, code hash, balance in whole unibi, the current value of every slot); accounts no journal entry dirtied are untouched
    (NibiruProofs/SDBCommit.lean, for stores / objects / dirties maps of any size). `C04_counterexample_lost_write` shows that the
    slot part fails once a precompile flush happened in a reverted frame. -/
theorem C04_commit_persists_final_view_partial (s0 : S) (h0 : WF s0) (ws : List WOp) (a : Nat) (o : Obj)
    (ho : AList.find? (applyAll s0 ws).objs a = some o) (hd : a ∈ (applyAll s0 ws).dirties.map (·.1)) (hs : o.suicided = false) :
    (commit (applyAll s0 ws)).txStore.acct a =
        some { nonce := o.nonce, codeHash := o.codeHash, balance := Int.tdiv o.balance weiPerUnibi } ∧
    ∀ k, (commit (applyAll s0 ws)).txStore.slot a k = objState (applyAll s0 ws) a o k :=
  commit_persists_view _ (WF_applyAll ws s0 h0).1 a o ho hd hs

theorem C04_commit_leaves_clean_accounts_partial (s0 : S) (h0 : WF s0) (ws : List WOp) (a : Nat)
    (hd : a ∉ (applyAll s0 ws).dirties.map (·.1)) :
    (commit (applyAll s0 ws)).txStore.acct a = s0.txStore.acct a ∧
    ∀ k, (commit (applyAll s0 ws)).txStore.slot a k = s0.txStore.slot a k := by
  obtain ⟨h1, h2⟩ := WF_applyAll ws s0 h0
  have := commit_frame _ h1.1 a hd
  rw [h2] at this
  exact this

theorem C04_commit_deletes_selfdestructed_partial (s0 : S) (h0 : WF s0) (ws : List WOp) (a : Nat) (o : Obj)
    (ho : AList.find? (applyAll s0 ws).objs a = some o) (hd : a ∈ (applyAll s0 ws).dirties.map (·.1)) (hs : o.suicided = true) :
    (commit (applyAll s0 ws)).txStore.acct a = none :=
  (commit_deletes_suicided _ (WF_applyAll ws s0 h0).1.1 a o ho hd hs).1

/-- the hypotheses are met by a concrete non-trivial history: over `cex0`'s store, `SetState(1, 0 := 7)`, `AddBalance(1, 2 unibi)`,
    `SetNonce(1, 2)`: account 1 is cached, dirty and alive, and the committed store shows nonce 2, balance 7, slot 0 = 7 -/
example :
    let s := applyAll cex0 [.setState 1 0 7, .addBalance 1 2000000000000, .setNonce 1 2]
    WF cex0 ∧ (∃ o, AList.find? s.objs 1 = some o ∧ o.suicided = false) ∧ 1 ∈ s.dirties.map (·.1) ∧
      (commit s).txStore.acct 1 = some { nonce := 2, codeHash := 7, balance := 7 } ∧ (commit s).txStore.slot 1 0 = 7 := by
  refine ⟨WF_fresh _, ?_, ?_, ?_, ?_⟩ <;> decide

/-! ### T1 (regenerated from x/evm/precompile/precompile.go on every run) -/

/-- every precompile call, whatever the method, enters through the same three unconditional StateDB calls: take the cache
    context, journal the multistore snapshot (`PrecompileCalled`, which also enforces the per-tx limit), flush the dirty StateDB —
    the sequence `NibiruModel.StateDB.precompile` models and `C04_precompile_entry_restores_multistore` speaks about -/
theorem fact_C04_onRunStart_sequence : Generated.onRunStartStateDBCalls =
    [("CacheCtxForPrecompile", "-"), ("SavePrecompileCalledJournalChange", "-"), ("CommitCacheCtx", "-")] := by decide

/-- the dirty-count bookkeeping of the journal, as the model's `append` / `revertTo` / `unDirty` were written from it: `append`
    increments the count of the entry's `Dirtied()` address; `Revert` walks the entries from the end down to the snapshot, reverts
    each, decrements the count of its address and deletes the address from the map exactly when the count reaches zero (`== 0`: a
    count driven below zero after an intermediate flush keeps the address — see the known finding C04-lost-write) -/
theorem fact_C04_journal_dirty_count_bookkeeping :
    Generated.journalBookkeeping =
      ["journal.append = assign:j.entries ; call:append ; if:addr != nil ; assign:addr ; call:entry.Dirtied ; ++:j.dirties[*addr]",
       "journal.Revert = for:i >= snapshot ; assign:i ; call:len ; --:i ; call:j.entries[i].Revert ; if:addr != nil ; assign:addr ; call:j.entries[i].Dirtied ; if:j.dirties[*addr] == 0 ; --:j.dirties[*addr] ; call:delete ; assign:j.entries"] := by
  decide +kernel

/-- the write-back, as the model's `commit` / `commitCache` / `commitInto` / `flushObj` were written from it: `Commit` first writes the
    cache context back (if one exists) and then flushes into the transaction context, `CommitCacheCtx` flushes into the cache
    context; the flush walks the SORTED dirty addresses; a missing object only resets the count; a self-destructed object is deleted
    from the keeper and from `stateObjects`; any other object gets its code (if dirty), its account record, and every dirty slot
    whose value differs from `OriginStorage[key]` — which is then advanced to the written value; the count is reset to 0 -/
theorem fact_C04_commit_skeleton :
    Generated.commitSkeletons =
      ["StateDB.Commit = if:s.writeToCommitCtxFromCacheCtx != nil ; call:s.writeToCommitCtxFromCacheCtx ; return:s.commitCtx(s.GetEvmTxContext()) ; call:s.commitCtx ; call:s.GetEvmTxContext",
       "StateDB.CommitCacheCtx = return:s.commitCtx(s.cacheCtx) ; call:s.commitCtx",
       "StateDB.commitCtx = range:s.Journal.sortedDirties() ; call:s.Journal.sortedDirties ; assign:obj ; call:s.getStateObject ; if:obj == nil ; assign:s.Journal.dirties[addr] ; continue ; if:obj.Suicided ; if:err != nil ; assign:err ; call:s.keeper.DeleteAccount ; call:obj.Address ; return:errorf(\"failed to delete account: %w\", err) ; call:errorf ; call:delete ; if:obj.code != nil && obj.DirtyCode ; call:s.keeper.SetCode ; call:obj.CodeHash ; if:err != nil ; assign:err ; call:s.keeper.SetAccount ; call:obj.Address ; call:obj.account.ToNative ; return:errorf(\"failed to set account: %w\", err) ; call:errorf ; range:obj.DirtyStorage.SortedKeys() ; call:obj.DirtyStorage.SortedKeys ; assign:dirtyVal ; if:dirtyVal == obj.OriginStorage[key] ; continue ; call:s.keeper.SetState ; call:obj.Address ; call:dirtyVal.Bytes ; assign:obj.OriginStorage[key] ; assign:s.Journal.dirties[addr] ; return:nil"] := by
  decide +kernel

end Nibiru.SDB
