/-
  C08 — Nibiru precompiles fail closed on any input and respect call context.

  Theorems over NibiruModel.Precompile (the admission path of a precompile call: RequiredGas, decomposeInput, the per-method
  guards, the places where a Go panic can start).  `Generated.*` are the facts re-read from x/evm/precompile on every run.
-/
import NibiruModel.Precompile
import Generated.Facts

namespace Nibiru.Precompile
open Nibiru

/-- the configuration of the source as it is now -/
def genCfg : Cfg :=
  cfgOfFacts Generated.precompileRequiredGasLenCheck Generated.precompileIsMutation Generated.precompileRunCases
    Generated.precompileRunDefersOOG Generated.precompileRawStringUses Generated.getErc20AddressGuards

/-! ### fact obligations (T1): the regenerated tables are what the theorems need -/

/-- the isMutation literal is the expected table -/
theorem fact_C08_isMutation_table : Generated.precompileIsMutation = expectedIsMutation := by decide

/-- every state-changing method has a `case`, and its handler starts with the read-only refusal -/
theorem fact_C08_state_changing_guarded :
    ∀ m ∈ stateChanging, ∃ mi ∈ genCfg.methods, mi.name = m ∧ mi.guard = "assertNotReadonlyTx" := by decide

/-- conversely every handler guarded otherwise is not a state-changing method -/
theorem fact_C08_unguarded_are_queries :
    ∀ mi ∈ genCfg.methods, mi.guard ≠ "assertNotReadonlyTx" → mi.name ∉ stateChanging := by decide

/-- every FunToken / Wasm query handler starts with the "no funds" assertion -/
theorem fact_C08_queries_refuse_value :
    ∀ mi ∈ genCfg.methods, mi.pc ≠ "oracle" → mi.name ∉ stateChanging → mi.guard = "assertContractQuery" := by decide

/-- method names are unique per precompile (so `method?` finds *the* handler) -/
theorem fact_C08_methods_unique :
    (genCfg.methods.map (fun m => (m.pc, m.name))).Nodup := by decide

/-- the source guards every place a panic could start: length check in requiredGas, denom validation before sdk.NewCoin and
    before the string-key index lookup, an out-of-gas handler in every Run -/
theorem fact_C08_cfg_good : genCfg.Good := by
  refine ⟨?_, ?_, ?_, ?_, ?_⟩ <;> decide

/-- the argument of `getErc20Address` reaches the string-key index only through these checks, in this order -/
theorem fact_C08_getErc20Address_guards :
    Generated.getErc20AddressGuards =
      ["e := assertNumArgs(args, 1); e != nil", "!ok", "err = sdk.ValidateDenom(bankDenom); err != nil",
       "err = tfDenom.Validate(); err != nil", "strings.ContainsRune(bankDenom, 0)"] := by decide +kernel

theorem fact_C08_all_runs_defer_oog : ∀ p ∈ Generated.precompileRunDefersOOG, p.2 = true := by decide

/-! ### no input panics -/

theorem requiredGas_some_of_lenCheck (c : Cfg) (x : Call) (h : c.requiredGasLenCheck = true) (hcap : x.len ≤ x.cap) :
    (requiredGas c x).isSome = true := by
  unfold requiredGas
  by_cases h4 : x.len < 4
  · simp [h, h4]
  · have : ¬ x.cap < 4 := by omega
    simp [h, h4, this]
    cases x.selCap with
    | none => simp
    | some m => simp; split <;> simp

theorem body_ne_panic (c : Cfg) (x : Call) (m : String) (g : Nat) (hg : c.Good) : body c x m g ≠ .panic := by
  obtain ⟨_, h2, h3, h4, h5⟩ := hg
  unfold body
  split
  · simp [h2]
  · split
    · simp [h3]
    · split
      · simp [h5]
      · split
        · simp [h4]
        · simp

/-- **C08 (no crash).** With the source's guards in place, no calldata (any length, any capacity of the memory window, any
    selector, decodable or not), no call context, value or gas amount drives a precompile call into a panic. -/
theorem C08_never_panics (c : Cfg) (hg : c.Good) (x : Call) (hcap : x.len ≤ x.cap) : stage c x ≠ .panic := by
  have hs := requiredGas_some_of_lenCheck c x hg.1 hcap
  unfold stage
  cases hr : requiredGas c x with
  | none => simp [hr] at hs
  | some g =>
    simp only
    split
    · simp
    · split
      · simp
      · cases x.selLen with
        | none => simp
        | some m =>
          simp only
          split
          · simp
          · cases c.method? x.pc m with
            | none => simp
            | some mi =>
              simp only
              split
              · simp
              · split
                · simp
                · exact body_ne_panic c x m _ hg

/-- the same for the source as it is now -/
theorem C08_never_panics_current (x : Call) (hcap : x.len ≤ x.cap) : stage genCfg x ≠ .panic :=
  C08_never_panics genCfg fact_C08_cfg_good x hcap

/-! ### counterexamples for the source as it was (each replayed on the real code; repaired by `fix:` commits) -/

def cfgBefore : Cfg := { genCfg with requiredGasLenCheck := false, bankMsgSendValidatesDenom := false,
                                     sendToEvmValidatesDenom := false, getErc20AddressRejectsNul := false, defersOOG := [("funtoken", true), ("oracle", false), ("wasm", true)] }

/-- `address(0x800).call("")`: empty calldata reaches `input[:4]` -/
theorem C08_counterexample_empty_calldata_before_fix :
    stage cfgBefore { pc := "funtoken", len := 0, cap := 0, selCap := none, selLen := none, unpackOk := false, readOnly := false,
                      valueNonZero := false, gas := 100000 } = .panic := by decide

/-- a 2-byte window into memory whose following bytes spell a real selector reaches `input[4:]` -/
theorem C08_counterexample_short_window_before_fix :
    stage cfgBefore { pc := "funtoken", len := 2, cap := 32, selCap := some "balance", selLen := none, unpackOk := false,
                      readOnly := true, valueNonZero := false, gas := 100000 } = .panic := by decide

/-- `bankMsgSend(to, "1abc", 5)`: `sdk.NewCoin` panics on the invalid denom -/
theorem C08_counterexample_bankMsgSend_denom_before_fix :
    stage cfgBefore { pc := "funtoken", len := 260, cap := 260, selCap := some "bankMsgSend", selLen := some "bankMsgSend",
                      unpackOk := true, readOnly := false, valueNonZero := false, gas := 5000000, toOk := true, denom := "1abc" } = .panic := by
  decide

/-- `sendToEvm("ab\0cd", …)`: the string-key encoder of the BankDenom index panics on the NUL byte -/
theorem C08_counterexample_sendToEvm_nul_before_fix :
    stage cfgBefore { pc := "funtoken", len := 228, cap := 228, selCap := some "sendToEvm", selLen := some "sendToEvm",
                      unpackOk := true, readOnly := false, valueNonZero := false, gas := 5000000,
                      denom := String.ofList ['a', 'b', Char.ofNat 0, 'c'] } = .panic := by
  decide

/-- `getErc20Address("tf/a/b\0c")`: refused by `sdk.ValidateDenom`, let through by the tokenfactory format check (which only counts
    the "/"-separated sections), and the string-key encoder of the BankDenom index panics on the NUL byte — a VIEW method, reachable
    by STATICCALL from any contract -/
theorem C08_counterexample_getErc20Address_tf_nul_before_fix :
    stage cfgBefore { pc := "funtoken", len := 100, cap := 100, selCap := some "getErc20Address", selLen := some "getErc20Address",
                      unpackOk := true, readOnly := true, valueNonZero := false, gas := 5000000,
                      denom := String.ofList ['t', 'f', '/', 'a', '/', 'b', Char.ofNat 0, 'c'] } = .panic := by
  decide

/-- an oracle query given less gas than the first store read costs: the out-of-gas panic had no handler -/
theorem C08_counterexample_oracle_low_gas_before_fix :
    stage cfgBefore { pc := "oracle", len := 100, cap := 100, selCap := some "queryExchangeRate", selLen := some "queryExchangeRate",
                      unpackOk := true, readOnly := true, valueNonZero := false, gas := 1500, pairOk := true } = .panic := by
  decide

/-! ### read-only context -/

theorem find_of_mem_unique (l : List MethodInfo) (mi : MethodInfo) (hm : mi ∈ l)
    (hu : (l.map (fun m => (m.pc, m.name))).Nodup) :
    l.find? (fun m => m.pc = mi.pc ∧ m.name = mi.name) = some mi := by
  induction l with
  | nil => cases hm
  | cons a t ih =>
    simp only [List.map_cons, List.nodup_cons] at hu
    rw [List.find?_cons]
    by_cases ha : a.pc = mi.pc ∧ a.name = mi.name
    · simp only [ha, and_self, decide_true]
      rcases List.mem_cons.mp hm with h | h
      · rw [h]
      · exfalso
        apply hu.1
        rw [List.mem_map]
        exact ⟨mi, h, by rw [ha.1, ha.2]⟩
    · simp only [ha, decide_false]
      rcases List.mem_cons.mp hm with h | h
      · exact absurd ⟨by rw [h], by rw [h]⟩ ha
      · exact ih h hu.2

theorem method?_of_mem_unique (c : Cfg) (mi : MethodInfo) (hm : mi ∈ c.methods)
    (hu : (c.methods.map (fun m => (m.pc, m.name))).Nodup) : c.method? mi.pc mi.name = some mi :=
  find_of_mem_unique c.methods mi hm hu

/-- **C08 (static context).** A call whose selector names a handler guarded by `assertNotReadonlyTx`, made with the read-only
    flag, never reaches the handler's body: it ends in one of the refusing stages. -/
theorem C08_mutation_refused_when_readonly (c : Cfg) (hg : c.Good)
    (hu : (c.methods.map (fun m => (m.pc, m.name))).Nodup) (x : Call) (hcap : x.len ≤ x.cap)
    (mi : MethodInfo) (hm : mi ∈ c.methods) (hpc : mi.pc = x.pc) (hsel : x.selLen = some mi.name)
    (hgd : mi.guard = "assertNotReadonlyTx") (hro : x.readOnly = true) :
    stage c x ≠ .run ∧ stage c x ≠ .panic := by
  refine ⟨?_, C08_never_panics c hg x hcap⟩
  have hlook := method?_of_mem_unique c mi hm hu
  rw [hpc] at hlook
  unfold stage
  cases hr : requiredGas c x with
  | none => simp
  | some g =>
    simp only
    split
    · simp
    · split
      · simp
      · rw [hsel]
        simp only
        split
        · simp
        · rw [hlook]
          simp [hgd, hro]

/-- for the current source: every state-changing method of every precompile is refused under the read-only flag, which the fork
    passes for STATICCALL, DELEGATECALL and CALLCODE -/
theorem C08_state_changing_refused_when_readonly_current (x : Call) (hcap : x.len ≤ x.cap)
    (m : String) (hm : m ∈ stateChanging) (hsel : x.selLen = some m)
    (mi : MethodInfo) (hmi : mi ∈ genCfg.methods) (hname : mi.name = m) (hpc : mi.pc = x.pc)
    (k : CallKind) (hk : k ≠ .call) (hro : x.readOnly = readOnlyOf k) :
    stage genCfg x ≠ .run ∧ stage genCfg x ≠ .panic := by
  have hguard : mi.guard = "assertNotReadonlyTx" := by
    by_cases hne : mi.guard = "assertNotReadonlyTx"
    · exact hne
    · exact absurd (hname ▸ hm) (fact_C08_unguarded_are_queries mi hmi hne)
  have hro' : x.readOnly = true := by
    rw [hro]; cases k <;> simp [readOnlyOf] at hk ⊢
  exact C08_mutation_refused_when_readonly genCfg fact_C08_cfg_good fact_C08_methods_unique x hcap mi hmi hpc
    (hname ▸ hsel) hguard hro'

/-- **C08 (queries take no funds).** A FunToken / Wasm query handler refuses a call that carries value. -/
theorem C08_query_refuses_value (c : Cfg) (hu : (c.methods.map (fun m => (m.pc, m.name))).Nodup) (x : Call)
    (mi : MethodInfo) (hm : mi ∈ c.methods) (hpc : mi.pc = x.pc) (hsel : x.selLen = some mi.name)
    (hgd : mi.guard = "assertContractQuery") (hv : x.valueNonZero = true) :
    stage c x ≠ .run := by
  have hlook := method?_of_mem_unique c mi hm hu
  rw [hpc] at hlook
  unfold stage
  cases hr : requiredGas c x with
  | none => simp
  | some g =>
    simp only
    split
    · simp
    · split
      · simp
      · rw [hsel]
        simp only
        split
        · simp
        · rw [hlook]
          simp [hgd, hv]

/-- the known gap, stated in the model: the fork passes `readOnly = false` for a plain CALL even when an enclosing frame is
    static, so the guard does not see it (replayed on the real code: known finding C08-nested-static) -/
theorem C08_counterexample_nested_static :
    readOnlyOf .call = false ∧
    stage genCfg { pc := "funtoken", len := 260, cap := 260, selCap := some "bankMsgSend", selLen := some "bankMsgSend",
                   unpackOk := true, readOnly := readOnlyOf .call, valueNonZero := false, gas := 5000000, toOk := true,
                   denom := "unibi" } = .run := by
  decide

/-! ### gas -/

/-- **C08 (gas).** Whatever the local meter consumed, the gas handed back never exceeds the gas supplied: the call cannot cost
    more than was forwarded to it. -/
theorem C08_gas_le_forwarded (c : Cfg) (x : Call) (consumed : Nat) : gasLeft c x consumed ≤ x.gas := by
  unfold gasLeft
  cases requiredGas c x with
  | none => simp
  | some g =>
    simp only
    split
    · exact Nat.le_refl _
    · split <;> omega

/-- a call that fails before Run costs nothing beyond RequiredGas, and an out-of-gas at RequiredGas leaves the supplied gas
    to the caller's error path (`evm.Call` then zeroes it: a failed precompile call burns what was forwarded, no more) -/
theorem C08_oog_required_keeps_gas (c : Cfg) (x : Call) (g : Nat) (h : requiredGas c x = some g) (hlt : x.gas < g) :
    stage c x = .oog ∧ gasLeft c x 0 = x.gas := by
  unfold stage gasLeft
  simp [h, hlt]

/-! ### non-vacuity: the hypotheses are met by concrete calls -/

example : (stage genCfg { pc := "funtoken", len := 260, cap := 260, selCap := some "bankMsgSend", selLen := some "bankMsgSend",
                          unpackOk := true, readOnly := true, valueNonZero := false, gas := 5000000 }) = .readonly := by decide
example : (stage genCfg { pc := "wasm", len := 100, cap := 100, selCap := some "query", selLen := some "query",
                          unpackOk := true, readOnly := true, valueNonZero := true, gas := 5000000 }) = .value := by decide
example : (stage genCfg { pc := "funtoken", len := 0, cap := 0, selCap := none, selLen := none, unpackOk := false, readOnly := false,
                          valueNonZero := false, gas := 100000 }) = .short := by decide
example : (stage genCfg { pc := "funtoken", len := 2, cap := 32, selCap := some "balance", selLen := none, unpackOk := false,
                          readOnly := true, valueNonZero := false, gas := 100000 }) = .short := by decide

end Nibiru.Precompile
