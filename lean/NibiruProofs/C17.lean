/-
  C17 — No transaction can set a validator commission above the 25% cap.
  Theorems about NibiruModel.MsgTree (AnteDecoratorStakingCommission and the routers that execute nested messages).
-/
import NibiruProofs.MsgTreeLemmas
import Generated.Facts
namespace Nibiru.MsgTree

/-- every validator's commission is within the cap -/
def CapInv (s : State) : Prop := ∀ x ∈ s.commission, x.2 ≤ cap

mutual
/-- trees in which no message is dispatched by a wasm contract (that router runs no ante at all: known finding) -/
def NoWasm : Msg → Prop
  | .wasm _ _ _ => False
  | .exec _ inner => NoWasms inner
  | .proposal _ inner => NoWasms inner
  | _ => True
def NoWasms : List Msg → Prop
  | [] => True
  | m :: ms => NoWasm m ∧ NoWasms ms
end

theorem CapInv_set (s : State) (o r : Nat) (h : CapInv s) (hr : r ≤ cap) :
    CapInv { s with commission := AList.set s.commission o r } := by
  intro x hx
  have key : ∀ (l : List (Nat × Nat)), (∀ y ∈ l, y.2 ≤ cap) → ∀ y ∈ AList.set l o r, y.2 ≤ cap := by
    intro l
    induction l with
    | nil => intro _ y hy; simp [AList.set] at hy; subst hy; exact hr
    | cons z zs ih =>
      intro hl y hy
      obtain ⟨k, v⟩ := z
      unfold AList.set at hy
      split at hy
      · rcases List.mem_cons.mp hy with e | e
        · subst e; exact hr
        · exact hl y (List.mem_cons_of_mem _ e)
      · rcases List.mem_cons.mp hy with e | e
        · subst e; exact hl _ List.mem_cons_self
        · exact ih (fun q hq => hl q (List.mem_cons_of_mem _ hq)) y e
  exact key s.commission h x hx

mutual
/-- a message that passes the (recursive) commission guard and contains no wasm dispatch keeps every commission within the cap -/
theorem run_cap (m : Msg) (s s' : State) (hc : CapInv s) (hg : guardCommission m = true) (hw : NoWasm m)
    (h : run s m = some s') : CapInv s' := by
  cases m with
  | eth x => simp only [run] at h; injection h with e; subst e; exact hc
  | comm o r =>
    simp only [run] at h; injection h with e; subst e
    simp only [guardCommission, decide_eq_true_eq] at hg
    exact CapInv_set s o r hc hg
  | send x => simp only [run] at h; injection h with e; subst e; exact hc
  | grant g e k => simp only [run] at h; split at h; · cases h
                   · injection h with e'; subst e'; exact hc
  | exec g inner =>
    simp only [run] at h; simp only [guardCommission] at hg; simp only [NoWasm] at hw
    exact dispatch_cap inner s s' g hc hg hw h
  | proposal p inner =>
    simp only [run] at h; split at h
    · injection h with e; subst e; exact hc
    · cases h
  | wasm x c em => simp only [NoWasm] at hw
theorem dispatch_cap (ms : List Msg) (s s' : State) (g : Nat) (hc : CapInv s) (hg : guardCommissionAll ms = true)
    (hw : NoWasms ms) (h : dispatch s g ms = some s') : CapInv s' := by
  cases ms with
  | nil => simp only [dispatch] at h; injection h with e; subst e; exact hc
  | cons m rest =>
    simp only [guardCommissionAll, Bool.and_eq_true] at hg
    simp only [NoWasms] at hw
    simp only [dispatch] at h
    split at h
    · cases hr : run s m with
      | none => simp [hr] at h
      | some s1 =>
        simp only [hr] at h
        exact dispatch_cap rest s1 s' g (run_cap m s s1 hc hg.1 hw.1 hr) hg.2 hw.2 h
    · cases h
end

/-- **C17 (authz at any depth).** With the decorator looking through MsgExec, an accepted tx whose staking messages are at top
    level or nested in MsgExec to any depth (and in submitted proposals, whose content is not executed at submission) leaves
    every validator's commission within 25% if it was before. -/
theorem C17_cap_authz (s s' : State) (tx : Tx) (hc : CapInv s) (hw : NoWasms tx.msgs)
    (h : deliver .throughExec s tx = some s') : CapInv s' := by
  unfold deliver at h
  cases hext : tx.evmExt
  · simp only [hext, Bool.false_eq_true, if_false] at h
    split at h; · cases h
    split at h; · cases h
    split at h; · cases h
    rename_i hcg
    have hall : tx.msgs.all guardCommission = true := by simpa [commGuardOk] using hcg
    have key : ∀ (ms : List Msg) (a b : State), CapInv a → (∀ m ∈ ms, guardCommission m = true) → NoWasms ms →
        runAll a ms = some b → CapInv b := by
      intro ms
      induction ms with
      | nil => intro a b ha _ _ hab; simp only [runAll] at hab; injection hab with e; subst e; exact ha
      | cons m rest ih =>
        intro a b ha hg hw' hab
        simp only [NoWasms] at hw'
        simp only [runAll] at hab
        cases hr : run a m with
        | none => simp [hr] at hab
        | some a1 =>
          simp only [hr] at hab
          exact ih a1 b (run_cap m a a1 ha (hg m List.mem_cons_self) hw'.1 hr) (fun x hx => hg x (List.mem_cons_of_mem _ hx)) hw'.2 hab
    exact key tx.msgs s s' hc (fun m hm => List.all_eq_true.mp hall m hm) hw h
  · simp only [hext, if_true] at h
    split at h
    · injection h with e; subst e; exact hc
    · cases h

/-- **Counterexample for the decorator as it was** (top-level messages only; repaired by the `fix:` commit and replayed on the real
    app before the repair): the operator executes its own MsgEditValidator through authz — no grant is needed when the inner
    signer is the grantee — and sets a 100% commission. -/
theorem C17_counterexample_authz_self_exec_before_fix :
    ∃ s', deliver .topOnly {} { evmExt := false, sigOk := true, msgs := [.exec 1 [.exec 1 [.comm 1 1000000000000000000]]] } = some s' ∧
      (1, 1000000000000000000) ∈ s'.commission := by
  exact ⟨_, rfl, by decide⟩

/-- the same tx is refused by the repaired decorator -/
theorem C17_authz_self_exec_refused_after_fix :
    deliver .throughExec {} { evmExt := false, sigOk := true, msgs := [.exec 1 [.exec 1 [.comm 1 1000000000000000000]]] } = none := by decide

/-- **Counterexample that remains (known finding C17-wasm-stargate)**: a contract that is a validator operator dispatches its own
    staking message; the wasm message handler routes it without any ante handler, so the cap is not enforced. -/
theorem C17_counterexample_wasm_dispatch :
    ∃ s', deliver .throughExec {} { evmExt := false, sigOk := true, msgs := [.wasm 2 3 [.comm 3 1000000000000000000]] } = some s' ∧
      (3, 1000000000000000000) ∈ s'.commission := by
  exact ⟨_, rfl, by decide⟩

/-! ### T1 (regenerated from app/ante/commission.go and app/ante.go on every run) -/

theorem fact_C17_decorator_looks_through_exec :
    guardOfFacts Generated.commissionDecoratorCases = .throughExec := by decide

/-- every exit from the scan of a message list is an error return: a cap violation, an unpacking error, or an error found in the
    messages of a MsgExec; nothing else ends the loop early (`guardCommissionAll` scans to the end of the list) -/
theorem fact_C17_scan_ends_early_only_with_an_error : Generated.commissionDecoratorReturns =
    ["range msgs / case *stakingtypes.MsgCreateValidator / if rate.GT(MAX_COMMISSION()) / return NewErrMaxValidatorCommission(rate)",
     "range msgs / case *stakingtypes.MsgEditValidator / if rate != nil && msg.CommissionRate.GT(MAX_COMMISSION()) / return NewErrMaxValidatorCommission(*rate)",
     "range msgs / case *authz.MsgExec / if err != nil / return err",
     "range msgs / case *authz.MsgExec / if err != nil / return err",
     "range msgs / default / continue",
     "return nil"] := by rfl

theorem fact_C17_decorator_in_chain : Generated.anteChainNonEVM.count "ante.AnteDecoratorStakingCommission" = 1 := by decide

end Nibiru.MsgTree
