/-
  NibiruModel.GethSpec — reference semantics of the `vm.StateDB` interface as upstream go-ethereum's core/state implements it
  (London rules), written as simply as possible: the state of the running transaction is a record of materialised accounts plus
  refund counter, logs and access list; `Snapshot` saves a copy of that record, `RevertToSnapshot` puts the copy back.
  No journal, no dirty tracking, no caches: this is the specification the journaled implementations must be observationally
  equal to.  Validated against the real go-ethereum `core/state.StateDB` by the `gspecgeth` correspondence run, and compared with
  Nibiru's real `x/evm/statedb` by the `gspecnib` run (both driven by the same generated call sequences).
  Addresses, keys, values and code hashes are naturals; balances are wei.  Between transactions an absent account and an empty
  one are identified (go-ethereum deletes touched empty accounts at the end of a transaction, Nibiru persists them).
-/
import NibiruModel.Prelude
namespace Nibiru.GethSpec

structure Acc where
  balance  : Int := 0
  nonce    : Nat := 0
  code     : Nat := 0
  storage  : List (Nat × Nat) := []   -- slots written in this transaction
  fresh    : Bool := false            -- created in this transaction by CreateAccount over nothing / over an older object:
                                      -- its storage starts empty, whatever the persisted store holds
  suicided : Bool := false
deriving Repr, DecidableEq, Inhabited

structure Base where
  accts   : List (Nat × (Nat × Nat × Int)) := []     -- addr ↦ (nonce, code, balance in wei)
  storage : List ((Nat × Nat) × Nat) := []
deriving Repr, DecidableEq, Inhabited

structure Tx where
  objs    : List (Nat × Acc) := []
  refund  : Nat := 0
  logs    : Nat := 0
  alAddrs : List Nat := []
  alSlots : List (Nat × Nat) := []
deriving Repr, DecidableEq, Inhabited

structure G where
  base  : Base := {}
  tx    : Tx := {}
  snaps : List (Nat × Tx) := []
  next  : Nat := 0
deriving Repr, Inhabited

def Base.slot (b : Base) (a k : Nat) : Nat := (AList.find? b.storage (a, k)).getD 0

def loadAcc (b : Base) (a : Nat) : Option Acc :=
  (AList.find? b.accts a).map (fun x => { nonce := x.1, code := x.2.1, balance := x.2.2 })

def obj? (g : G) (a : Nat) : Option Acc :=
  match AList.find? g.tx.objs a with
  | some o => some o
  | none => loadAcc g.base a

def setObj (g : G) (a : Nat) (o : Acc) : G := { g with tx := { g.tx with objs := AList.set g.tx.objs a o } }

def getOrNew (g : G) (a : Nat) : Acc := (obj? g a).getD { fresh := true }

def committedOf (g : G) (a : Nat) (o : Acc) (k : Nat) : Nat := if o.fresh then 0 else g.base.slot a k
def stateOf (g : G) (a : Nat) (o : Acc) (k : Nat) : Nat :=
  match AList.find? o.storage k with
  | some v => v
  | none => committedOf g a o k

/-- an absent account and an empty one are rendered alike (see the header) -/
def renderAcc (o : Option Acc) : String :=
  match o with
  | some o =>
    if o.nonce = 0 && o.balance = 0 && o.code = 0 then s!"E{boolStr o.suicided}:0:0:0"
    else s!"X{boolStr o.suicided}:{o.balance}:{o.nonce}:{o.code}"
  | none => "E0:0:0:0"

def insertSortedNat (l : List Nat) (x : Nat) : List Nat :=
  match l with
  | [] => [x]
  | y :: ys => if x ≤ y then (if x = y then y :: ys else x :: y :: ys) else y :: insertSortedNat ys x
def sortNat (l : List Nat) : List Nat := l.foldl insertSortedNat []

def renderMisc (g : G) : String :=
  let al := renderItems "," (sortNat g.tx.alAddrs |>.map toString)
  s!"R={g.tx.refund} L={g.tx.logs} AL={al}/{g.tx.alSlots.length}"

/-- end of the transaction: self-destructed accounts are removed with their storage; the others are written; an account whose
    storage was reset gets its old slots wiped first -/
def commit (g : G) : G :=
  let b := (sortNat (g.tx.objs.map (·.1))).foldl (fun (b : Base) a =>
    match AList.find? g.tx.objs a with
    | none => b
    | some o =>
      let wiped : Base := if o.suicided || o.fresh then { b with storage := b.storage.filter (fun e => e.1.1 ≠ a) } else b
      if o.suicided || (o.nonce = 0 && o.balance = 0 && o.code = 0) then { wiped with accts := AList.erase wiped.accts a }
      else
        let b1 := { wiped with accts := AList.set wiped.accts a (o.nonce, o.code, o.balance) }
        -- (the pairs are written last-to-first, so that the pair `AList.find?` would return for a key is the one that sticks)
        o.storage.reverse.foldl (fun (acc : Base) kv => { acc with storage := AList.set acc.storage (a, kv.1) kv.2 }) b1) g.base
  { base := b, tx := {}, snaps := [], next := 0 }

def renderBase (b : Base) (addrs keys : List Nat) : String :=
  let accts := renderItems "," (addrs.map (fun a => match AList.find? b.accts a with
    | some x => s!"{a}:{x.1}:{x.2.1}:{x.2.2}"
    | none => s!"{a}:0:0:0"))
  let slots := renderItems "," ((addrs.flatMap (fun a => keys.map (fun k => (a, k)))).filterMap (fun p =>
    let v := b.slot p.1 p.2; if v = 0 then none else some s!"{p.1}.{p.2}={v}"))
  s!"ACC={accts} ST={slots}"

def parseBaseAccts (s : String) : List (Nat × (Nat × Nat × Int)) :=
  (parseItems "," s).filterMap (fun it => match it.splitOn ":" with
    | [a, n, c, b] => match parseNat? a, parseNat? n, parseNat? c, parseInt? b with
      | some a, some n, some c, some b => if n = 0 && c = 0 && b = 0 then none else some (a, (n, c, b))
      | _, _, _, _ => none
    | _ => none)

def parseSlots (s : String) : List ((Nat × Nat) × Nat) :=
  (parseItems "," s).filterMap (fun it => match it.splitOn "=" with
    | [ak, v] => match ak.splitOn ".", parseNat? v with
      | [a, k], some v => match parseNat? a, parseNat? k with | some a, some k => some ((a, k), v) | _, _ => none
      | _, _ => none
    | _ => none)

def addrs : List Nat := [0, 1, 2, 3]
def keys : List Nat := [0, 1, 2]

/-- the calls of the `vm.StateDB` interface (plus `commit`: the end of the transaction) -/
inductive Op where
  | read (a : Nat) | getState (a k : Nat)
  | addBalance (a : Nat) (d : Int) | setNonce (a v : Nat) | setCode (a h : Nat) | setState (a k v : Nat)
  | createAccount (a : Nat) | suicide (a : Nat)
  | addLog | addRefund (r : Nat) | subRefund (r : Nat) | addAddr (a : Nat) | addSlot (a k : Nat) | misc
  | snapshot | revert (id : Nat) | commit
deriving Repr, DecidableEq

def apply (g : G) : Op → G × String
  | .read a => (g, renderAcc (obj? g a))
  | .getState a k =>
    match obj? g a with
    | some o => (g, s!"{stateOf g a o k}/{committedOf g a o k}")
    | none => (g, "0/0")
  | .addBalance a d => let o := getOrNew g a; (setObj g a { o with balance := o.balance + d }, "ok")
  | .setNonce a v => let o := getOrNew g a; (setObj g a { o with nonce := v }, "ok")
  | .setCode a h => let o := getOrNew g a; (setObj g a { o with code := h }, "ok")
  | .setState a k v => let o := getOrNew g a; (setObj g a { o with storage := AList.set o.storage k v }, "ok")
  | .createAccount a =>
    let bal := ((obj? g a).map (·.balance)).getD 0
    (setObj g a { balance := bal, fresh := true }, "ok")
  | .suicide a =>
    match obj? g a with
    | none => (g, "0")
    | some o => (setObj g a { o with suicided := true, balance := 0 }, "1")
  | .addLog => ({ g with tx := { g.tx with logs := g.tx.logs + 1 } }, "ok")
  | .addRefund r => ({ g with tx := { g.tx with refund := g.tx.refund + r } }, "ok")
  | .subRefund r =>
    if r > g.tx.refund then (g, "panic") else ({ g with tx := { g.tx with refund := g.tx.refund - r } }, "ok")
  | .addAddr a =>
    if g.tx.alAddrs.contains a then (g, "ok") else ({ g with tx := { g.tx with alAddrs := g.tx.alAddrs ++ [a] } }, "ok")
  | .addSlot a k =>
    let t1 := if g.tx.alAddrs.contains a then g.tx else { g.tx with alAddrs := g.tx.alAddrs ++ [a] }
    let t2 := if t1.alSlots.contains (a, k) then t1 else { t1 with alSlots := t1.alSlots ++ [(a, k)] }
    ({ g with tx := t2 }, "ok")
  | .misc => (g, renderMisc g)
  | .snapshot => ({ g with snaps := g.snaps ++ [(g.next, g.tx)], next := g.next + 1 }, s!"id={g.next}")
  | .revert id =>
    match g.snaps.find? (fun r => r.1 = id) with
    | some (_, t) => ({ g with tx := t, snaps := g.snaps.filter (fun r => r.1 < id) }, "ok")
    | none => (g, "panic")
  | .commit => let g' := commit g; (g', "P:" ++ renderBase g'.base addrs keys)

def parseOp (args : List String) : Option Op :=
  let n := fun (x : String) => (parseNat? x).getD 0
  let i := fun (x : String) => (parseInt? x).getD 0
  match args with
  | ["read", a] => some (.read (n a))
  | ["getState", a, k] => some (.getState (n a) (n k))
  | ["addBalance", a, d] => some (.addBalance (n a) (i d))
  | ["setNonce", a, v] => some (.setNonce (n a) (n v))
  | ["setCode", a, h] => some (.setCode (n a) (n h))
  | ["setState", a, k, v] => some (.setState (n a) (n k) (n v))
  | ["createAccount", a] => some (.createAccount (n a))
  | ["suicide", a] => some (.suicide (n a))
  | ["addLog"] => some .addLog
  | ["addRefund", r] => some (.addRefund (n r))
  | ["subRefund", r] => some (.subRefund (n r))
  | ["addAddr", a] => some (.addAddr (n a))
  | ["addSlot", a, k] => some (.addSlot (n a) (n k))
  | ["misc"] => some .misc
  | ["snapshot"] => some .snapshot
  | ["revert", id] => some (.revert (n id))
  | ["commit"] => some .commit
  | _ => none

def step (g : G) (args : List String) : G × String :=
  match args with
  | "reset" :: rest =>
    let sec := fun k => (section? rest k).getD "-"
    ({ base := { accts := parseBaseAccts (sec "ACC"), storage := parseSlots (sec "ST") } }, "ok")
  | _ =>
    match parseOp args with
    | some o => apply g o
    | none => (g, "bad-op")

/-- the ordinary calls: everything except the three that manage snapshots and the end of the transaction -/
def Op.plain : Op → Bool
  | .snapshot | .revert _ | .commit => false
  | _ => true

/-- EIP-3529 refund as both state transitions compute it: the counter, capped by a fifth of the gas used -/
def refundQuotient : Nat := 5
def gasUsedAfterRefund (gasLimit gasLeft refundCounter : Nat) : Nat :=
  let used := gasLimit - gasLeft
  used - min refundCounter (used / refundQuotient)
/-- go-ethereum `st.refundGas`: refund := used / quotient; if refund > counter then refund = counter -/
def gethGasUsedAfterRefund (gasLimit gasLeft refundCounter : Nat) : Nat :=
  let used := gasLimit - gasLeft
  let r := used / refundQuotient
  used - (if r > refundCounter then refundCounter else r)

end Nibiru.GethSpec
