package main

import (
	"fmt"
	"go/ast"
	"strings"
)

// Facts about x/oracle/abci.go and x/oracle/types/core.go (C10 / C12): the tally harness calls UpdateExchangeRates and
// SlashAndResetMissCounters directly, so WHEN the end blocker calls them is tied by these facts:
//   oracleEndBlockerCalls      (conditions the call sits under, callee) for every call on the keeper `k` in EndBlocker, in source order
//   oraclePeriodLastBlockExpr  what IsPeriodLastBlock returns
func init() {
	extractors["oracleabci"] = func(repo string, out *leanFile, js map[string]any) error {
		var calls []string
		found := false
		for _, sf := range loadDir(repo, "x/oracle") {
			for _, d := range sf.file.Decls {
				fd, ok := d.(*ast.FuncDecl)
				if !ok || fd.Name.Name != "EndBlocker" || fd.Body == nil {
					continue
				}
				found = true
				var walk func(n ast.Node, conds []string)
				record := func(n ast.Node, conds []string) {
					ast.Inspect(n, func(m ast.Node) bool {
						if _, ok := m.(*ast.FuncLit); ok {
							return false
						}
						if call, ok := m.(*ast.CallExpr); ok {
							if se, ok := call.Fun.(*ast.SelectorExpr); ok {
								if id, ok := se.X.(*ast.Ident); ok && id.Name == "k" {
									c := "-"
									if len(conds) > 0 {
										c = strings.Join(conds, " && ")
									}
									calls = append(calls, fmt.Sprintf("(%s, %s)", leanStr(c), leanStr(se.Sel.Name)))
								}
							}
						}
						return true
					})
				}
				walk = func(n ast.Node, conds []string) {
					switch v := n.(type) {
					case *ast.BlockStmt:
						for _, st := range v.List {
							walk(st, conds)
						}
					case *ast.IfStmt:
						if v.Init != nil {
							record(v.Init, conds)
						}
						c := exprString(v.Cond)
						walk(v.Body, append(append([]string{}, conds...), c))
						if v.Else != nil {
							walk(v.Else, append(append([]string{}, conds...), "!("+c+")"))
						}
					case *ast.DeferStmt:
						// telemetry only
					default:
						record(n, conds)
					}
				}
				walk(fd.Body, nil)
			}
		}
		if !found {
			return fmt.Errorf("x/oracle: EndBlocker not found")
		}
		out.f("def oracleEndBlockerCalls : List (String × String) := [%s]\n", strings.Join(calls, ", "))
		expr := ""
		for _, sf := range loadDir(repo, "x/oracle/types") {
			for _, d := range sf.file.Decls {
				fd, ok := d.(*ast.FuncDecl)
				if !ok || fd.Name.Name != "IsPeriodLastBlock" || fd.Body == nil {
					continue
				}
				for _, st := range fd.Body.List {
					if rs, ok := st.(*ast.ReturnStmt); ok && len(rs.Results) == 1 {
						expr = exprString(rs.Results[0])
					}
				}
			}
		}
		out.f("def oraclePeriodLastBlockExpr : String := %s\n", leanStr(expr))
		return nil
	}
}
