package main

import (
	"go/ast"
	"sort"
	"strings"
)

// Keeper.NewStateDB is the PUBLISHING constructor: besides building a StateDB it stores it in the process-wide Keeper.Bank.StateDB,
// which every NIBI-moving bank operation mirrors into and which EthereumTx / ConvertCoinToEvm / CreateFunToken adopt.  Who may call it
// is part of what the concurrency model (C09) and the ledger models (C04, C06) assume: the entry points of a state-machine execution,
// each clearing the pointer when it returns — never a query handler, never code that runs inside an execution.
//   publishingConstructorCallers   "dir:Func" of every non-test function outside x/evm/evmtest that calls <x>.NewStateDB(…), sorted
//   privateConstructorCallers      the same for statedb.New(…) (the constructor that publishes nothing), sorted
func init() {
	extractors["publishers"] = func(repo string, out *leanFile, js map[string]any) error {
		pub, priv := map[string]bool{}, map[string]bool{}
		for _, dir := range []string{"x/evm", "app", "eth"} {
			for _, sf := range loadDir(repo, dir) {
				if strings.Contains(sf.rel, "/evmtest/") {
					continue
				}
				for _, d := range sf.file.Decls {
					fd, ok := d.(*ast.FuncDecl)
					if !ok || fd.Body == nil {
						continue
					}
					ast.Inspect(fd.Body, func(n ast.Node) bool {
						ce, ok := n.(*ast.CallExpr)
						if !ok {
							return true
						}
						if se, ok := ce.Fun.(*ast.SelectorExpr); ok {
							where := sf.rel[:strings.LastIndex(sf.rel, "/")] + ":" + funcName(fd)
							if se.Sel.Name == "NewStateDB" {
								pub[where] = true
							}
							if se.Sel.Name == "New" && exprString(se.X) == "statedb" {
								priv[where] = true
							}
						}
						return true
					})
				}
			}
		}
		list := func(m map[string]bool) []string {
			var l []string
			for k := range m {
				l = append(l, k)
			}
			sort.Strings(l)
			return l
		}
		out.f("def publishingConstructorCallers : List String := %s\n", leanStrList(list(pub)))
		out.f("def privateConstructorCallers : List String := %s\n", leanStrList(list(priv)))
		return nil
	}
}
