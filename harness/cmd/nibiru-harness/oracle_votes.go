package main

import (
	"crypto/sha256"
	"encoding/hex"
	"errors"
	"fmt"
	"sort"
	"strings"

	sdkmath "cosmossdk.io/math"
	sdk "github.com/cosmos/cosmos-sdk/types"
	sdkerrors "github.com/cosmos/cosmos-sdk/types/errors"
	"github.com/cosmos/cosmos-sdk/x/staking"
	stakingtypes "github.com/cosmos/cosmos-sdk/x/staking/types"

	"github.com/NibiruChain/collections"

	"github.com/NibiruChain/nibiru/v2/app"
	"github.com/NibiruChain/nibiru/v2/x/common/asset"
	"github.com/NibiruChain/nibiru/v2/x/common/testutil/testapp"
	"github.com/NibiruChain/nibiru/v2/x/oracle"
	oraclekeeper "github.com/NibiruChain/nibiru/v2/x/oracle/keeper"
	oracletypes "github.com/NibiruChain/nibiru/v2/x/oracle/types"

	"verif/harness/internal/hx"
)

func init() { runners["ovote"] = runOracleVotes }

func hexOrDash(s string) string {
	if s == "" {
		return "-"
	}
	return hex.EncodeToString([]byte(s))
}

// expectedHash is computed here, independently of x/oracle/types/hash.go: truncated sha256 of "salt:rates:valoper".
func expectedHash(salt, rates string, val sdk.ValAddress) string {
	sum := sha256.Sum256([]byte(salt + ":" + rates + ":" + val.String()))
	return hex.EncodeToString(sum[:20])
}

func oracleErrClass(err error) string {
	switch {
	case err == nil:
		return "ok"
	case errors.Is(err, oracletypes.ErrNoVotingPermission):
		return "noperm"
	case errors.Is(err, stakingtypes.ErrNoValidatorFound):
		return "notbonded"
	case errors.Is(err, oracletypes.ErrNoAggregatePrevote):
		return "noprevote"
	case errors.Is(err, oracletypes.ErrRevealPeriodMissMatch):
		return "period"
	case errors.Is(err, sdkerrors.ErrInvalidCoins):
		return "parse"
	case errors.Is(err, oracletypes.ErrUnknownPair):
		return "unknownpair"
	case errors.Is(err, oracletypes.ErrHashVerificationFailed):
		return "hash"
	case errors.Is(err, oracletypes.ErrInvalidHash):
		return "badhash"
	default:
		return "other:" + strings.ReplaceAll(err.Error(), " ", "_")
	}
}

func renderVoteStores(nibiru *app.NibiruApp, ctx sdk.Context) string {
	k := nibiru.OracleKeeper
	var pv, vs, fd []string
	for _, kv := range k.Prevotes.Iterate(ctx, collections.Range[sdk.ValAddress]{}).KeyValues() {
		h := kv.Value.Hash
		if h == "" {
			h = "-"
		}
		pv = append(pv, fmt.Sprintf("%s/%s/%d", hex.EncodeToString(kv.Key), h, kv.Value.SubmitBlock))
	}
	for _, kv := range k.Votes.Iterate(ctx, collections.Range[sdk.ValAddress]{}).KeyValues() {
		var ts []string
		for _, t := range kv.Value.ExchangeRateTuples {
			ts = append(ts, fmt.Sprintf("%s/%s", t.Pair, t.ExchangeRate.BigInt()))
		}
		vs = append(vs, hex.EncodeToString(kv.Key)+"@"+items2(ts, ";"))
	}
	for _, kv := range k.FeederDelegations.Iterate(ctx, collections.Range[sdk.ValAddress]{}).KeyValues() {
		fd = append(fd, fmt.Sprintf("%s/%s", hex.EncodeToString(kv.Key), hex.EncodeToString(kv.Value)))
	}
	sort.Strings(pv)
	sort.Strings(vs)
	sort.Strings(fd)
	return fmt.Sprintf("PV=%s V=%s F=%s", items(pv), items(vs), items(fd))
}

func items2(xs []string, sep string) string {
	if len(xs) == 0 {
		return "-"
	}
	return strings.Join(xs, sep)
}

// decTable lists every substring that the tuple parser could hand to the SDK decimal parser, with the SDK's verdict.
func decTable(rates string) string {
	var out []string
	seen := map[string]bool{}
	for _, part := range strings.Split(rates, "|") {
		if len(part) <= 2 {
			continue
		}
		inner := part[1 : len(part)-1]
		sp := strings.Split(inner, ",")
		if len(sp) != 2 || seen[sp[1]] {
			continue
		}
		seen[sp[1]] = true
		d, err := sdkmath.LegacyNewDecFromStr(sp[1])
		if err != nil {
			out = append(out, hexOrDash(sp[1])+"=err")
		} else {
			out = append(out, hexOrDash(sp[1])+"="+d.BigInt().String())
		}
	}
	return items(out)
}

var rateVariants = [][]string{
	{"(btc:usd,1.5)|(eth:usd,2)", "(btc:usd,1.50)|(eth:usd,2)", "(btc:usd,1.5)|(eth:usd,2.0)", "(eth:usd,2)|(btc:usd,1.5)", "(btc:usd,01.5)|(eth:usd,2)"},
	{"(btc:usd,30000.123456789012345678)", "(btc:usd,30000.1234567890123456780)", "(btc:usd,30000.123456789012345678)|"},
	{"(nibi:usd,0)", "(nibi:usd,0.0)", "(nibi:usd,-1)", "(nibi:usd,0.000000000000000000)"},
	{"(btc:usd,1)|(btc:usd,2)", "(btc:usd,1)(eth:usd,2)", "btc:usd,1", "(btc:usd;1)", "()", "", "(btc:usd,1,2)", "(btc:usd,)", "(:usd,1)", "(btcusd,1)", "(b:usd,1)"},
	{"(zzz:usd,7)", "(btc:usd,1)|(zzz:usd,7)", "(sol:usd,1e3)", "(btc:usd, 1)", "(btc:usd,1.1234567890123456789)", "(BTC:usd,4)"},
	{"(btc:usd,115792089237316195423570985008687907853269984665640564039457584007913129639935)", "(btc:usd,99999999999999999999999999999999999999999999999999999999999999999999999999999)"},
}

func runOracleVotes(r *hx.R, n int, w *hx.W, _ []string) error {
	nibiru, ctx0 := testapp.NewNibiruTestAppAndContext()
	k := nibiru.OracleKeeper
	ms := oraclekeeper.NewMsgServerImpl(k, nibiru.SudoKeeper)
	whitelist := []asset.Pair{"btc:usd", "eth:usd", "nibi:usd", "sol:usd", "BTC:usd"}
	var ctxSet sdk.Context
	var vals []hval
	for c := 0; c < n; c++ {
		if c%6 == 0 {
			ctxSet, _ = ctx0.CacheContext()
			ctxSet = ctxSet.WithBlockHeight(ctx0.BlockHeight() + 1)
			vals = createValidators(r, nibiru, ctxSet, 2+r.Pick(2), byte(c%200))
		}
		ctx, _ := ctxSet.CacheContext()
		vp := uint64([]int64{1, 2, 5, 10, 3}[r.Pick(5)])
		params := oracletypes.DefaultParams()
		params.VotePeriod = vp
		params.SlashWindow = 1 << 40
		params.Whitelist = whitelist
		k.Params.Set(ctx, params)
		for _, p := range k.WhitelistedPairs.Iterate(ctx, collections.Range[asset.Pair]{}).Keys() {
			k.WhitelistedPairs.Delete(ctx, p)
		}
		for _, p := range whitelist {
			k.WhitelistedPairs.Insert(ctx, p)
		}
		// accounts: validators' own accounts, two feeders, a stranger, an address that is no validator
		feeders := []sdk.AccAddress{}
		for i := 0; i < 3; i++ {
			b := make([]byte, 20)
			r.Read(b)
			feeders = append(feeders, sdk.AccAddress(b))
		}
		ghost := make([]byte, 20)
		r.Read(ghost)
		var vItems, wItems []string
		for _, v := range nibiru.StakingKeeper.GetAllValidators(ctx) {
			vItems = append(vItems, fmt.Sprintf("%s/%s", hex.EncodeToString(v.GetOperator()), b01(v.IsBonded())))
		}
		sort.Strings(vItems)
		for _, p := range whitelist {
			wItems = append(wItems, string(p))
		}
		w.Step(fmt.Sprintf("ovote reset %d %s %s", vp, items(wItems), items(vItems)), "ok")

		height := int64(r.Range(20, 60))
		ctx = ctx.WithBlockHeight(height)
		type plan struct {
			val   sdk.ValAddress
			salt  string
			rates string
		}
		var plans []plan
		pickVal := func() sdk.ValAddress {
			if r.Chance(1, 12) {
				return sdk.ValAddress(ghost)
			}
			return vals[r.Pick(len(vals))].addr
		}
		pickFeeder := func(val sdk.ValAddress) sdk.AccAddress {
			switch r.Pick(5) {
			case 0, 1:
				return sdk.AccAddress(val)
			case 2:
				return feeders[r.Pick(len(feeders))]
			default:
				d := k.FeederDelegations.GetOr(ctx, val, sdk.AccAddress(val))
				return d
			}
		}
		doPrevote := func(val sdk.ValAddress, feeder sdk.AccAddress, pl plan, mut int) {
			hashStr := expectedHash(pl.salt, pl.rates, pl.val)
			hashOk := "1"
			canon := hashStr
			switch mut {
			case 0:
				hashStr = strings.ToUpper(hashStr)
			case 1:
				hashStr, hashOk, canon = "zz"+hashStr[2:], "0", "-"
			case 2:
				hashStr, hashOk, canon = hashStr[1:], "0", "-"
			case 3:
				hashStr, canon = "", "-"
			}
			res := hx.Recover(func() string {
				_, err := ms.AggregateExchangeRatePrevote(ctx, &oracletypes.MsgAggregateExchangeRatePrevote{Hash: hashStr, Feeder: feeder.String(), Validator: val.String()})
				return oracleErrClass(err) + " " + renderVoteStores(nibiru, ctx)
			})
			if strings.HasPrefix(res, "ok") {
				plans = append(plans, pl)
			}
			w.Count("prevote:" + strings.SplitN(res, " ", 2)[0])
			w.Step(fmt.Sprintf("ovote prevote %d %s %s %s %s", height, hex.EncodeToString(val), hex.EncodeToString(feeder), hashOk, canon), res)
		}
		doVote := func(pl plan, feeder sdk.AccAddress) {
			res := hx.Recover(func() string {
				_, err := ms.AggregateExchangeRateVote(ctx, &oracletypes.MsgAggregateExchangeRateVote{Salt: pl.salt, ExchangeRates: pl.rates, Feeder: feeder.String(), Validator: pl.val.String()})
				return oracleErrClass(err) + " " + renderVoteStores(nibiru, ctx)
			})
			w.Count("vote:" + strings.SplitN(res, " ", 2)[0])
			w.Step(fmt.Sprintf("ovote vote %d %s %s %s %s %s", height, hex.EncodeToString(pl.val), hex.EncodeToString(feeder), hexOrDash(pl.rates),
				decTable(pl.rates), expectedHash(pl.salt, pl.rates, pl.val)), res)
		}
		doAdvance := func(adv int64) {
			for j := int64(0); j < adv; j++ {
				last := oracletypes.IsPeriodLastBlock(ctx, vp)
				res := hx.Recover(func() string {
					oracle.EndBlocker(ctx, k)
					return "ok " + renderVoteStores(nibiru, ctx)
				})
				if last {
					w.Count("endperiod")
					w.Step(fmt.Sprintf("ovote endperiod %d", height), res)
				}
				height++
				ctx = ctx.WithBlockHeight(height)
			}
		}
		perturb := func(pl plan) plan {
			switch r.Pick(4) {
			case 0: // a different textual form of (possibly) the same tuples
				for _, fam := range rateVariants {
					for _, s := range fam {
						if s == pl.rates {
							pl.rates = fam[r.Pick(len(fam))]
							return pl
						}
					}
				}
			case 1:
				pl.salt += "x"
			case 2:
				pl.val = pickVal()
			}
			return pl
		}
		newPlan := func(val sdk.ValAddress) plan {
			fam := rateVariants[r.Pick(len(rateVariants))]
			if r.Chance(1, 2) {
				fam = rateVariants[r.Pick(3)]
			}
			return plan{val, []string{"1", "ab", "salt", "s:"}[r.Pick(4)], fam[r.Pick(len(fam))]}
		}
		steps := 8 + r.Pick(40)
		for i := 0; i < steps; i++ {
			switch c := r.Pick(20); {
			case c < 2: // delegate feeder
				val := pickVal()
				d := feeders[r.Pick(len(feeders))]
				if r.Chance(1, 3) {
					d = sdk.AccAddress(val) // take the feeder rights back: delegate to the operator's own account
				}
				former := k.FeederDelegations.GetOr(ctx, val, sdk.AccAddress(val))
				res := hx.Recover(func() string {
					_, err := ms.DelegateFeedConsent(ctx, &oracletypes.MsgDelegateFeedConsent{Operator: val.String(), Delegate: d.String()})
					cls := oracleErrClass(err)
					if cls == "notbonded" {
						cls = "novalidator"
					}
					return cls + " " + renderVoteStores(nibiru, ctx)
				})
				w.Count("delegate:" + strings.SplitN(res, " ", 2)[0])
				w.Step(fmt.Sprintf("ovote delegate %s %s", hex.EncodeToString(val), hex.EncodeToString(d)), res)
				if strings.HasPrefix(res, "ok") && !former.Equals(d) && !former.Equals(sdk.AccAddress(val)) && r.Chance(2, 3) {
					// the feeder that has just been replaced tries to keep acting for the validator
					doPrevote(val, former, newPlan(val), 9)
				}
			case c < 5: // prevote
				val := pickVal()
				doPrevote(val, pickFeeder(val), newPlan(val), r.Pick(10))
			case c < 8: // vote: usually the reveal of a planned prevote, with perturbations
				var pl plan
				if len(plans) > 0 && r.Chance(5, 6) {
					pl = plans[len(plans)-1-r.Pick(min(len(plans), 3))]
				} else {
					pl = newPlan(pickVal())
				}
				if r.Chance(1, 3) {
					pl = perturb(pl)
				}
				doVote(pl, pickFeeder(pl.val))
			case c < 14: // commit-reveal flow: prevote, move into the next period (or not quite / too far), reveal
				val := vals[r.Pick(len(vals))].addr
				feeder := k.FeederDelegations.GetOr(ctx, val, sdk.AccAddress(val))
				if r.Chance(1, 2) {
					feeder = sdk.AccAddress(val)
				}
				if r.Chance(1, 4) {
					// an earlier commitment that is never revealed stays pending into the next period; the new commitment below
					// replaces it and must be bound to ITS OWN period
					doPrevote(val, feeder, newPlan(val), 9)
					doAdvance(int64(vp) - (height % int64(vp)) + r.Range(0, int64(vp)-1))
				}
				pl := newPlan(val)
				doPrevote(val, feeder, pl, 9)
				toNext := int64(vp) - (height % int64(vp)) // blocks until the next period starts
				switch r.Pick(6) {
				case 0:
					doAdvance(toNext - 1) // still the same period (or no move)
				case 1:
					doAdvance(toNext + int64(vp)) // two periods later
				default:
					doAdvance(toNext + r.Range(0, int64(vp)-1))
				}
				if r.Chance(1, 4) {
					pl = perturb(pl)
				}
				if r.Chance(1, 6) {
					feeder = pickFeeder(val)
				}
				doVote(pl, feeder)
				if r.Chance(1, 4) { // replay of the same reveal
					doVote(pl, feeder)
				}
			case c < 15: // VotePeriod change
				vp = uint64([]int64{1, 2, 5, 10, 3, 7}[r.Pick(6)])
				params.VotePeriod = vp
				k.Params.Set(ctx, params)
				w.Count("setperiod")
				w.Step(fmt.Sprintf("ovote setperiod %d", vp), "ok "+renderVoteStores(nibiru, ctx))
			case c < 16: // jail a validator (it stops being bonded)
				if !r.Chance(1, 3) {
					continue
				}
				v := vals[r.Pick(len(vals))]
				val, _ := nibiru.StakingKeeper.GetValidator(ctx, v.addr)
				if val.IsJailed() {
					continue
				}
				cons, _ := val.GetConsAddr()
				nibiru.StakingKeeper.Jail(ctx, cons)
				staking.EndBlocker(ctx, nibiru.StakingKeeper)
				val, _ = nibiru.StakingKeeper.GetValidator(ctx, v.addr)
				w.Count("jail")
				w.Step(fmt.Sprintf("ovote setbonded %s %s", hex.EncodeToString(v.addr), b01(val.IsBonded())), "ok "+renderVoteStores(nibiru, ctx))
			default: // advance blocks, running the real EndBlocker at every height
				doAdvance(r.Range(1, int64(vp)+2))
			}
		}
	}
	return nil
}
