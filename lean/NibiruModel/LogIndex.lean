/-
  NibiruModel.LogIndex — per-block EVM transaction / log index bookkeeping:
    TxConfig (x/evm/keeper/vm_config.go), StateDB.AddLog (x/evm/statedb/statedb.go), updateBlockBloom and its call sites
    (x/evm/keeper/msg_server.go: EthereumTx, convertCoinToEvmBornCoin, convertCoinToEvmBornERC20;
     x/evm/keeper/funtoken_from_coin.go: deployERC20ForBankCoin), BlockTxIndex increment, EndBlock bloom.
  The argument each call site passes to updateBlockBloom is a parameter (`Cfg`), read from the regenerated facts.
-/
import NibiruModel.Prelude
namespace Nibiru.LogIndex

/-- what a call site passes as `logIndex` to `updateBlockBloom` -/
inductive ArgKind where
  | logSize      -- the tx config's LogIndex = BlockLogSize at the start of the operation
  | txIndex      -- BlockTxIndex
  | zero
  | unknown
deriving Repr, DecidableEq

inductive Site where | ethTx | convertCoinBorn | convertErc20Born | deployErc20
deriving Repr, DecidableEq

structure Cfg where
  arg : Site → ArgKind

structure Log where
  index   : Nat      -- log.Index
  txIndex : Nat      -- log.TxIndex
  id      : Nat      -- identity of the log (for the bloom: the set of logs folded into it)
deriving Repr, DecidableEq

structure State where
  txIndex : Nat := 0          -- BlockTxIndex (transient)
  logSize : Nat := 0          -- BlockLogSize (transient)
  logs    : List Log := []    -- every log emitted in the block so far, in emission order
  bloom   : List Nat := []    -- ids folded into the transient block bloom
  nextId  : Nat := 0
  ethTxs  : List Nat := []    -- tx indices reported by EventEthereumTx, in execution order
deriving Repr

/-- the logs an operation emits: `AddLog` gives Index = LogIndex + position, TxIndex = TxConfig.TxIndex -/
def mkLogs (s : State) (n : Nat) : List Log :=
  (List.range n).map (fun i => { index := s.logSize + i, txIndex := s.txIndex, id := s.nextId + i })

def argValue (s : State) : ArgKind → Nat
  | .logSize => s.logSize
  | .txIndex => s.txIndex
  | .zero => 0
  | .unknown => 0

/-- `updateBlockBloom(ctx, resp, arg)`: only when there are logs -/
def updateBloom (s : State) (arg : Nat) (logs : List Log) : State :=
  if logs.isEmpty then s
  else { s with bloom := s.bloom ++ logs.map (·.id), logSize := arg + logs.length }

inductive Outcome where
  | ok        -- executed successfully
  | reverted  -- executed, VM error: the tx counts, its logs are dropped with the reverted state
  | failed    -- the message returned an error: nothing is written
deriving Repr, DecidableEq

/-- one `EthereumTx` message -/
def ethTx (c : Cfg) (s : State) (n : Nat) (o : Outcome) : State × List Log :=
  match o with
  | .failed => (s, [])
  | _ =>
    let logs := if o = .ok then mkLogs s n else []
    let s1 := updateBloom s (argValue s (c.arg .ethTx)) logs
    ({ s1 with logs := s.logs ++ logs, nextId := s.nextId + logs.length, ethTxs := s.ethTxs ++ [s.txIndex], txIndex := s.txIndex + 1 }, logs)

/-- a FunToken operation inside a Cosmos tx that emits `n` EVM logs (mint / transfer / ERC20 deployment) -/
def cosmosOp (c : Cfg) (s : State) (site : Site) (n : Nat) (ok : Bool) : State × List Log :=
  if !ok then (s, [])
  else
    let logs := mkLogs s n
    let s1 := updateBloom s (argValue s (c.arg site)) logs
    ({ s1 with logs := s.logs ++ logs, nextId := s.nextId + logs.length }, logs)

/-! ### configuration from the regenerated facts -/

def parseArg (e : String) : ArgKind :=
  if e = "uint64(txConfig.LogIndex)" then .logSize
  else if e = "uint64(k.EvmState.BlockTxIndex.GetOr(ctx, 0))" then .txIndex
  else if e = "uint64(0)" then .zero
  else .unknown

def siteOfFunc (f : String) : Option Site :=
  if f = "x/evm/keeper:Keeper.EthereumTx" then some .ethTx
  else if f = "x/evm/keeper:Keeper.convertCoinToEvmBornCoin" then some .convertCoinBorn
  else if f = "x/evm/keeper:Keeper.convertCoinToEvmBornERC20" then some .convertErc20Born
  else if f = "x/evm/keeper:Keeper.deployERC20ForBankCoin" then some .deployErc20
  else none

/-- facts are (function, argument expression) pairs -/
def cfgOfFacts (facts : List (String × String)) : Cfg :=
  { arg := fun site =>
      match facts.find? (fun f => siteOfFunc f.1 == some site) with
      | some f => parseArg f.2
      | none => .unknown }

/-- the configuration in which every site advances the block log size from the tx config's log index -/
def goodCfg : Cfg := { arg := fun _ => .logSize }

/-! ### line protocol -/

def renderLogs (l : List Log) : String := renderItems "," (l.map (fun x => s!"{x.index}/{x.txIndex}"))

def parseSite : String → Option Site
  | "convertCoinBorn" => some .convertCoinBorn | "convertErc20Born" => some .convertErc20Born
  | "deployErc20" => some .deployErc20 | _ => none

def step (c : Cfg) (s : State) (args : List String) : State × String :=
  match args with
  | ["newblock"] => ({}, "ok")
  | ["eth", n, o] =>
    match parseNat? n with
    | some n =>
      let oc := if o = "ok" then Outcome.ok else if o = "reverted" then .reverted else .failed
      let (s', logs) := ethTx c s n oc
      (s', s!"{o} logs={renderLogs logs} txIndex={s'.txIndex} logSize={s'.logSize}")
    | none => (s, "bad-op")
  | ["cosmos", site, n, ok] =>
    match parseSite site, parseNat? n with
    | some site, some n =>
      let (s', logs) := cosmosOp c s site n (ok = "ok")
      (s', s!"{ok} logs={renderLogs logs} txIndex={s'.txIndex} logSize={s'.logSize}")
    | _, _ => (s, "bad-op")
  | ["endblock"] => (s, s!"bloom=union-of-{s.bloom.length}-logs ethTxs={renderItems "," (s.ethTxs.map toString)}")
  | _ => (s, "bad-op")

end Nibiru.LogIndex
