/-
  NibiruModel.Oracle — x/oracle end-of-period processing:
    UpdateExchangeRates (keeper/update_exchange_rates.go), groupVotesByPair / removeInvalidVotes / Tally / clearVotesAndPrevotes
    (keeper/ballot.go), WeightedMedianWithAssertion / StandardDeviation (types/ballot.go), rewardWinners /
    GatherRewardsForVotePeriod / AllocateRewards (keeper/reward.go), SlashAndResetMissCounters (keeper/slash.go).
  Decimals are raw 10^18-scaled integers (NibiruModel.SdkDec). Validator addresses are hex strings (store order = string order).
  Go maps (`ValidatorPerformances`, `pairVotes`) are association lists sorted by key; C01 proves the results are independent of
  the iteration order.
-/
import NibiruModel.SdkDec
namespace Nibiru.Oracle
open Nibiru.Dec

structure Validator where
  addr   : String
  power  : Int        -- consensus power
  bonded : Bool
  jailed : Bool := false
deriving Repr, DecidableEq, Inhabited

/-- one aggregate vote in the Votes store -/
structure AggVote where
  voter  : String
  tuples : List (String × Int)     -- (pair, raw rate)
deriving Repr, DecidableEq, Inhabited

/-- `ExchangeRateVote` inside a per-pair ballot -/
structure BVote where
  rate  : Int
  voter : String
  power : Int
deriving Repr, DecidableEq, Inhabited

structure Perf where
  addr    : String
  power   : Int
  weight  : Int := 0
  win     : Int := 0
  abstain : Int := 0
  miss    : Int := 0
deriving Repr, DecidableEq, Inhabited

structure Rate where
  pair    : String
  rate    : Int
  created : Nat
deriving Repr, DecidableEq, Inhabited

structure Reward where
  id      : Nat
  periods : Nat
  amount  : Int       -- per-period coins (single denom)
deriving Repr, DecidableEq, Inhabited

structure Params where
  threshold  : Int    -- VoteThreshold (raw)
  minVoters  : Nat
  expiration : Nat    -- ExpirationBlocks
  band       : Int    -- RewardBand (raw)
  votePeriod : Nat
  whitelist  : List String   -- params.Whitelist ("next" whitelist)
deriving Repr, DecidableEq, Inhabited

structure State where
  rates     : List Rate := []                 -- ExchangeRates, sorted by pair
  votes     : List AggVote := []              -- Votes, sorted by voter
  prevotes  : List (String × Nat) := []       -- Prevotes: (validator, submitBlock)
  whitelist : List String := []               -- WhitelistedPairs store, sorted
  miss      : List (String × Nat) := []       -- MissCounters, sorted by validator
  rewards   : List Reward := []               -- Rewards, sorted by id
  balance   : Int := 0                        -- oracle module account balance (reward denom)
deriving Repr, DecidableEq, Inhabited

/-! ### ballots -/

/-- `newValidatorPerformances`: bonded validators only -/
def newPerfs (vals : List Validator) : List Perf :=
  (vals.filter (·.bonded)).map (fun v => { addr := v.addr, power := v.power })

def findPerf (perfs : List Perf) (a : String) : Option Perf := perfs.find? (·.addr = a)

/-- append to the ballot of `pair` (map keyed by pair, kept sorted by pair) -/
def addToBallot (m : List (String × List BVote)) (pair : String) (v : BVote) : List (String × List BVote) :=
  match m with
  | [] => [(pair, [v])]
  | (p, l) :: t =>
    if pair < p then (pair, [v]) :: (p, l) :: t
    else if pair = p then (p, l ++ [v]) :: t
    else (p, l) :: addToBallot t pair v

/-- `groupVotesByPair`: votes of validators that are not in the performance map are ignored; abstain (rate ≤ 0) ⇒ power 0 -/
def groupVotes (perfs : List Perf) (votes : List AggVote) : List (String × List BVote) :=
  votes.foldl (fun m av =>
    match findPerf perfs av.voter with
    | none => m
    | some p =>
      av.tuples.foldl (fun m t =>
        addToBallot m t.1 { rate := t.2, voter := av.voter, power := if t.2 > (0:Int) then p.power else 0 }) m) ([] : List (String × List BVote))

def ballotPower (b : List BVote) : Int := sumInts (b.map (·.power))
def numValidVoters (b : List BVote) : Nat := (b.filter (fun v => decide (v.rate > 0))).length

/-- `isPassingVoteThreshold` -/
def passing (b : List BVote) (thresholdPower : Int) (minVoters : Nat) : Bool :=
  let t := ballotPower b
  if t = 0 then false
  else if t < thresholdPower then false
  else if numValidVoters b < minVoters then false
  else true

/-- threshold power: `VoteThreshold.MulInt64(totalBondedPower).RoundInt()` -/
def thresholdPower (p : Params) (totalBonded : Int) : Int := roundInt (mulInt p.threshold totalBonded)

/-- `removeInvalidVotes`: returns (surviving ballots, local whitelist afterwards) -/
def removeInvalid (ballots : List (String × List BVote)) (wl : List String) (tp : Int) (minVoters : Nat) :
    List (String × List BVote) × List String :=
  let keep := ballots.filter (fun pb => wl.contains pb.1 && passing pb.2 tp minVoters)
  -- a pair present in the ballots that fails (or is not whitelisted) is deleted from the local whitelist set
  let dropped := (ballots.filter (fun pb => !(wl.contains pb.1 && passing pb.2 tp minVoters))).map (·.1)
  (keep, wl.filter (fun w => !dropped.contains w))

/-! ### weighted median -/

def sortBallot (b : List BVote) : List BVote := sortBy (fun x y => decide (x.rate ≤ y.rate)) b

/-- the scan `pivot += power; if pivot >= total/2 return rate` over an already sorted ballot -/
def medianScan (half : Int) : Int → List BVote → Int
  | _, [] => 0
  | pivot, v :: vs => if pivot + v.power ≥ half then v.rate else medianScan half (pivot + v.power) vs

def weightedMedianSorted (sorted : List BVote) : Int :=
  medianScan (Int.tdiv (ballotPower sorted) 2) 0 sorted

/-- `WeightedMedianWithAssertion` -/
def weightedMedian (b : List BVote) : Int := weightedMedianSorted (sortBallot b)

/-! ### reward band -/

/-- `common.SqrtDec` : isqrt of the raw value, rescaled -/
def sqrtDec (v : Int) : Int := (Nat.sqrt v.toNat : Int) * 1000000000

/-- `StandardDeviation(median)`; any panic inside (decimal overflow, n = 0) is recovered to 0 -/
def stdDev (b : List BVote) (median : Int) : Int :=
  let pos := b.filter (fun v => decide (v.rate > 0))
  if pos.isEmpty then 0
  else
    let sq := pos.map (fun v => mul (v.rate - median) (v.rate - median))
    if sq.any (fun x => !inRange x) then 0
    else
      let sum := sumInts sq
      if !inRange sum then 0 else
      sqrtDec (quoInt sum pos.length)

def rewardSpread (b : List BVote) (band median : Int) : Int :=
  let s := mul median (quoInt band 2)
  let sd := stdDev b median
  if sd > s then sd else s

inductive Class where | win | miss | abstain
deriving Repr, DecidableEq

/-- classification of one vote in `Tally` -/
def classify (median spread : Int) (v : BVote) : Class :=
  let inside := decide (v.rate ≥ median - spread) && decide (v.rate ≤ median + spread)
  let isAbstain := !(decide (v.rate > 0))
  if inside then .win else if !isAbstain then .miss else .abstain

def updPerf (perfs : List Perf) (a : String) (f : Perf → Perf) : List Perf :=
  perfs.map (fun p => if p.addr = a then f p else p)

/-- the loop of `Tally` over one (sorted) ballot; `missed` = voters already counted as missing for this pair -/
def tallyLoop (median spread : Int) : List BVote → List String → List Perf → List Perf
  | [], _, perfs => perfs
  | v :: vs, missed, perfs =>
    match classify median spread v with
    | .win => tallyLoop median spread vs missed (updPerf perfs v.voter (fun p => { p with weight := p.weight + v.power, win := p.win + 1 }))
    | .miss =>
      if missed.contains v.voter then tallyLoop median spread vs missed perfs
      else tallyLoop median spread vs (v.voter :: missed) (updPerf perfs v.voter (fun p => { p with miss := p.miss + 1 }))
    | .abstain => tallyLoop median spread vs missed (updPerf perfs v.voter (fun p => { p with abstain := p.abstain + 1 }))

/-- `Tally`: returns (median, updated performances) -/
def tally (b : List BVote) (band : Int) (perfs : List Perf) : Int × List Perf :=
  let sorted := sortBallot b
  let median := weightedMedianSorted sorted
  let spread := rewardSpread sorted band median
  (median, tallyLoop median spread sorted [] perfs)

/-! ### stores -/

def setRate (rs : List Rate) (r : Rate) : List Rate :=
  match rs with
  | [] => [r]
  | x :: xs => if r.pair < x.pair then r :: x :: xs else if r.pair = x.pair then r :: xs else x :: setRate xs r

/-- `clearExchangeRates` -/
def clearRates (rs : List Rate) (validPairs : List String) (expiration height : Nat) : List Rate :=
  rs.filter (fun r => !(validPairs.contains r.pair || decide (r.created + expiration ≤ height)))

def addMiss (mc : List (String × Nat)) (a : String) (n : Nat) : List (String × Nat) :=
  match mc with
  | [] => [(a, n)]
  | (k, v) :: t => if a < k then (a, n) :: (k, v) :: t else if a = k then (k, v + n) :: t else (k, v) :: addMiss t a n

/-- `incrementMissCounters` -/
def incMiss (mc : List (String × Nat)) (perfs : List Perf) : List (String × Nat) :=
  perfs.foldl (fun mc p => if p.miss > 0 then addMiss mc p.addr p.miss.toNat else mc) mc

/-- `incrementAbstainsByOmission` -/
def omitAbstain (numPairs : Int) (perfs : List Perf) : List Perf :=
  perfs.map (fun p =>
    let o := numPairs - (p.win + p.abstain + p.miss)
    if o > 0 then { p with abstain := p.abstain + o } else p)

/-- `GatherRewardsForVotePeriod`: (pot, remaining allocations) -/
def gather (rw : List Reward) : Int × List Reward :=
  (sumInts (rw.map (·.amount)),
   (rw.map (fun r => { r with periods := r.periods - 1 })).filter (fun r => r.periods ≠ 0))

/-- share of one validator: `totalRewards.MulDec(NewDec(weight).QuoInt64(total)).TruncateDecimal()` -/
def portion (pot weight total : Int) : Int :=
  truncateInt (mul (ofInt pot) (quoInt (ofInt weight) total))

/-- `rewardWinners`: (payouts per validator, new allocations, new module balance).  When the module balance does not cover the
    distributed sum the transfer fails (logged) — the validator allocations have already been recorded. -/
def rewardWinners (perfs : List Perf) (rw : List Reward) (bal : Int) : List (String × Int) × List Reward × Int :=
  let total := sumInts (perfs.map (·.weight))
  if total = 0 then ([], rw, bal)
  else
    let (pot, rw') := gather rw
    let pays := perfs.map (fun p => (p.addr, portion pot p.weight total))
    let sum := sumInts (pays.map (·.2))
    (pays.filter (fun x => x.2 ≠ 0), rw', if sum ≤ bal then bal - sum else bal)

/-- `clearVotesAndPrevotes` -/
def clearPrevotes (pv : List (String × Nat)) (height votePeriod : Nat) : List (String × Nat) :=
  pv.filter (fun x => !(decide (height ≥ x.2 + votePeriod)))

/-- `refreshWhitelist` -/
def refreshWhitelist (store : List String) (next : List String) (cur : List String) : List String :=
  let upd := cur.length ≠ next.length || next.any (fun p => !cur.contains p)
  if upd then sortBy (fun a b => decide (a ≤ b)) next.eraseDups else store

structure Out where
  perfs : List Perf := []
  paid  : List (String × Int) := []
deriving Repr, DecidableEq, Inhabited

/-- the per-pair loop of `tallyVotesAndUpdatePrices` -/
def tallyAll (band : Int) (height : Nat) : List (String × List BVote) → List Perf → List Rate → List Perf × List Rate
  | [], perfs, rates => (perfs, rates)
  | (pair, b) :: rest, perfs, rates =>
    let (median, perfs') := tally b band perfs
    tallyAll band height rest perfs' (setRate rates { pair := pair, rate := median, created := height })

/-- `UpdateExchangeRates` -/
def updateExchangeRates (s : State) (p : Params) (vals : List Validator) (totalBonded : Int) (height : Nat) : State × Out :=
  let perfs0 := newPerfs vals
  let ballots0 := groupVotes perfs0 s.votes
  let (ballots, wl) := removeInvalid ballots0 s.whitelist (thresholdPower p totalBonded) p.minVoters
  let rates1 := clearRates s.rates (ballots.map (·.1)) p.expiration height
  let (perfs1, rates2) := tallyAll p.band height ballots perfs0 rates1
  let miss := incMiss s.miss perfs1
  let perfs2 := omitAbstain wl.length perfs1
  let (paid, rw, bal) := rewardWinners perfs2 s.rewards s.balance
  ({ rates := rates2, votes := [], prevotes := clearPrevotes s.prevotes height p.votePeriod,
     whitelist := refreshWhitelist s.whitelist p.whitelist wl, miss := miss, rewards := rw, balance := bal },
   { perfs := perfs2, paid := paid })

/-! ### slashing -/

structure SlashParams where
  slashWindow : Nat
  votePeriod  : Nat
  minValid    : Int     -- MinValidPerWindow (raw)
deriving Repr, DecidableEq, Inhabited

def periodsPerWindow (sp : SlashParams) : Int :=
  truncateInt (quoInt (ofInt sp.slashWindow) sp.votePeriod)

def validVoteRate (ppw : Int) (missCount : Nat) : Int := quoInt (ofInt (ppw - missCount)) ppw

/-- `SlashAndResetMissCounters`: the validators that are slashed and jailed; all counters are deleted -/
def slashSet (sp : SlashParams) (mc : List (String × Nat)) (vals : List Validator) : List String :=
  let ppw := periodsPerWindow sp
  (mc.filter (fun x =>
    decide (validVoteRate ppw x.2 < sp.minValid) &&
      (match vals.find? (·.addr = x.1) with
       | some v => v.bonded && !v.jailed
       | none => false))).map (·.1)

/-- `AllocateRewards` -/
def allocateRewards (s : State) (nextId : Nat) (total : Int) (votePeriods : Nat) : State :=
  { s with rewards := s.rewards ++ [{ id := nextId, periods := votePeriods, amount := Int.tdiv total votePeriods }],
           balance := s.balance + total }

/-- `IsPeriodLastBlock`: (height + 1) mod period = 0 -/
def isPeriodLastBlock (height period : Nat) : Bool := (height + 1) % period == 0

/-- `EndBlocker`: the tally runs on the last block of a vote period, the slash-and-reset on the last block of a slash window —
    two independent gates -/
def endBlockGates (height votePeriod slashWindow : Nat) : Bool × Bool :=
  (isPeriodLastBlock height votePeriod, isPeriodLastBlock height slashWindow)

/-! ### line protocol (state-passing: every op carries the full input state read from the real keeper) -/

def fields (s : String) : List String := s.splitOn "/"

def parseVals (s : String) : Option (List Validator) :=
  (parseItems "," s).mapM (fun it =>
    match fields it with
    | [a, p, b, j] => do let p ← parseInt? p; pure { addr := a, power := p, bonded := b = "1", jailed := j = "1" }
    | _ => none)

def parseRates (s : String) : Option (List Rate) :=
  (parseItems "," s).mapM (fun it =>
    match fields it with
    | [p, r, c] => do let r ← parseInt? r; let c ← parseNat? c; pure { pair := p, rate := r, created := c }
    | _ => none)

def parseVotes (s : String) : Option (List AggVote) :=
  (parseItems "," s).mapM (fun it =>
    match it.splitOn "@" with
    | [voter, ts] => do
      let tuples ← (parseItems ";" ts).mapM (fun t =>
        match fields t with
        | [p, r] => do let r ← parseInt? r; pure (p, r)
        | _ => none)
      pure { voter := voter, tuples := tuples }
    | _ => none)

def parseKV (s : String) : Option (List (String × Nat)) :=
  (parseItems "," s).mapM (fun it =>
    match fields it with
    | [a, n] => do let n ← parseNat? n; pure (a, n)
    | _ => none)

def parseRewards (s : String) : Option (List Reward) :=
  (parseItems "," s).mapM (fun it =>
    match fields it with
    | [i, p, a] => do let i ← parseNat? i; let p ← parseNat? p; let a ← parseInt? a; pure { id := i, periods := p, amount := a }
    | _ => none)

def renderRates (rs : List Rate) : String := renderItems "," (rs.map (fun r => s!"{r.pair}/{r.rate}/{r.created}"))
def renderKV (m : List (String × Nat)) : String := renderItems "," (m.map (fun x => s!"{x.1}/{x.2}"))
def renderKVI (m : List (String × Int)) : String := renderItems "," (m.map (fun x => s!"{x.1}/{x.2}"))
def renderPerfs (ps : List Perf) : String :=
  renderItems "," (ps.map (fun p => s!"{p.addr}/{p.weight}/{p.win}/{p.abstain}/{p.miss}"))
def renderRewards (rw : List Reward) : String := renderItems "," (rw.map (fun r => s!"{r.id}/{r.periods}/{r.amount}"))

def step (args : List String) : String :=
  match args with
  | "tally" :: height :: thr :: minV :: exp :: band :: tb :: vp :: rest =>
    match parseNat? height, parseInt? thr, parseNat? minV, parseNat? exp, parseInt? band, parseInt? tb, parseNat? vp with
    | some height, some thr, some minV, some exp, some band, some tb, some vp =>
      let sec := fun k => (section? rest k).getD "-"
      match parseVals (sec "V"), parseRates (sec "R"), parseVotes (sec "B"), parseRewards (sec "RW"), parseKV (sec "MC"),
            parseKV (sec "PV"), parseInt? (sec "BAL") with
      | some vals, some rates, some votes, some rw, some mc, some pv, some bal =>
        let p : Params := { threshold := thr, minVoters := minV, expiration := exp, band := band, votePeriod := vp,
                            whitelist := parseItems "," (sec "N") }
        let s : State := { rates := rates, votes := votes, prevotes := pv, whitelist := parseItems "," (sec "W"), miss := mc,
                           rewards := rw, balance := bal }
        let (s', o) := updateExchangeRates s p vals tb height
        s!"R={renderRates s'.rates} PERF={renderPerfs o.perfs} MC={renderKV s'.miss} W={renderItems "," s'.whitelist} RW={renderRewards s'.rewards} PAID={renderKVI o.paid} PV={renderKV s'.prevotes} NV={s'.votes.length} BAL={s'.balance}"
      | _, _, _, _, _, _, _ => "bad-op"
    | _, _, _, _, _, _, _ => "bad-op"
  | "allocate" :: nextId :: total :: periods :: rest =>
    match parseNat? nextId, parseInt? total, parseNat? periods with
    | some nextId, some total, some periods =>
      let sec := fun k => (section? rest k).getD "-"
      match parseRewards (sec "RW"), parseInt? (sec "BAL") with
      | some rw, some bal =>
        let s' := allocateRewards { rewards := rw, balance := bal } nextId total periods
        s!"RW={renderRewards s'.rewards} BAL={s'.balance}"
      | _, _ => "bad-op"
    | _, _, _ => "bad-op"
  | ["gates", h, vp, sw] =>
    match parseNat? h, parseNat? vp, parseNat? sw with
    | some h, some vp, some sw =>
      let g := endBlockGates h vp sw
      s!"tally={boolStr g.1} slash={boolStr g.2}"
    | _, _, _ => "bad-op"
  | "slash" :: sw :: vp :: minValid :: rest =>
    match parseNat? sw, parseNat? vp, parseInt? minValid with
    | some sw, some vp, some mv =>
      let sec := fun k => (section? rest k).getD "-"
      match parseVals (sec "V"), parseKV (sec "MC") with
      | some vals, some mc =>
        s!"SLASHED={renderItems "," (slashSet { slashWindow := sw, votePeriod := vp, minValid := mv } mc vals)} MC=-"
      | _, _ => "bad-op"
    | _, _, _ => "bad-op"
  | _ => "bad-op"

end Nibiru.Oracle
