package main

import (
	"errors"
	"fmt"
	"sort"
	"strings"

	sdkmath "cosmossdk.io/math"
	sdk "github.com/cosmos/cosmos-sdk/types"
	banktypes "github.com/cosmos/cosmos-sdk/x/bank/types"

	"github.com/NibiruChain/nibiru/v2/x/common/testutil/testapp"
	inflationkeeper "github.com/NibiruChain/nibiru/v2/x/inflation/keeper"
	inflationtypes "github.com/NibiruChain/nibiru/v2/x/inflation/types"
	oraclekeeper "github.com/NibiruChain/nibiru/v2/x/oracle/keeper"
	oracletypes "github.com/NibiruChain/nibiru/v2/x/oracle/types"
	sudokeeper "github.com/NibiruChain/nibiru/v2/x/sudo/keeper"
	sudotypes "github.com/NibiruChain/nibiru/v2/x/sudo/types"
	tftypes "github.com/NibiruChain/nibiru/v2/x/tokenfactory/types"

	"verif/harness/internal/hx"
)

func init() { runners["sudo"] = runSudo }

func runSudo(r *hx.R, n int, w *hx.W, _ []string) error {
	nibiru, ctx0 := testapp.NewNibiruTestAppAndContext()
	sudoMs := sudokeeper.NewMsgServer(nibiru.SudoKeeper)
	oracleMs := oraclekeeper.NewMsgServerImpl(nibiru.OracleKeeper, nibiru.SudoKeeper)
	inflMs := inflationkeeper.NewMsgServerImpl(nibiru.InflationKeeper)
	tfMs := nibiru.TokenFactoryKeeper
	targets := []string{"oracleParams", "inflationParams", "inflationToggle", "denomMetadata"}
	for c := 0; c < n; c++ {
		ctx, _ := ctx0.CacheContext()
		var accts []string
		var valid []string
		for i := 0; i < 5; i++ {
			b := make([]byte, 20)
			r.Read(b)
			a := sdk.AccAddress(b).String()
			accts = append(accts, a)
			valid = append(valid, a, strings.ToUpper(a))
		}
		root := accts[0]
		var contracts []string
		for _, a := range accts[1:3] {
			if r.Chance(1, 2) {
				contracts = append(contracts, a)
			}
		}
		nibiru.SudoKeeper.Sudoers.Set(ctx, sudotypes.Sudoers{Root: root, Contracts: contracts})
		counts := map[string]int{}
		digest := func(t string) string {
			switch t {
			case "oracleParams":
				p, _ := nibiru.OracleKeeper.Params.Get(ctx)
				return p.String()
			case "inflationParams":
				p, _ := nibiru.InflationKeeper.Params.Get(ctx)
				p.InflationEnabled, p.HasInflationStarted = false, false
				return p.String()
			case "inflationToggle":
				p, _ := nibiru.InflationKeeper.Params.Get(ctx)
				return fmt.Sprint(p.InflationEnabled, p.HasInflationStarted)
			default:
				m, _ := nibiru.BankKeeper.GetDenomMetaData(ctx, "utest")
				return m.String()
			}
		}
		render := func() string {
			s, _ := nibiru.SudoKeeper.Sudoers.Get(ctx)
			cs := append([]string{}, s.Contracts...)
			sort.Strings(cs)
			return fmt.Sprintf("root=%s contracts=%s w=%d,%d,%d,%d", s.Root, items(cs), counts[targets[0]], counts[targets[1]], counts[targets[2]], counts[targets[3]])
		}
		cs0 := append([]string{}, contracts...)
		sort.Strings(cs0)
		w.Step(fmt.Sprintf("sudo reset %s %s %s", items(valid), root, items(cs0)), "ok "+render())
		pick := func() string {
			switch r.Pick(14) {
			case 0:
				return "notanaddress"
			case 1:
				return strings.ToUpper(accts[r.Pick(len(accts))])
			case 2, 3, 4, 5:
				s, _ := nibiru.SudoKeeper.Sudoers.Get(ctx)
				return s.Root // whoever is root now, in the stored spelling
			default:
				return accts[r.Pick(len(accts))]
			}
		}
		run := func(vb func() error, h func(sdk.Context) error) string {
			return hx.Recover(func() string {
				if err := vb(); err != nil {
					return "invalid"
				}
				cctx, commit := ctx.CacheContext()
				err := h(cctx)
				if err != nil {
					if errors.Is(err, sudotypes.ErrUnauthorized) || strings.Contains(err.Error(), "must be sent by root") || strings.Contains(err.Error(), "unauthorized") ||
						strings.Contains(err.Error(), "insufficient permissions") {
						return "unauthorized"
					}
					return "invalid"
				}
				commit()
				return "ok"
			})
		}
		seq := 0
		steps := 10 + r.Pick(50)
		for i := 0; i < steps; i++ {
			var op, res string
			switch c := r.Pick(10); {
			case c < 3:
				sender := pick()
				act := []string{"add", "remove", "add", "remove", "bogus"}[r.Pick(5)]
				var cs []string
				for j := r.Pick(4); j > 0; j-- {
					cs = append(cs, pick())
				}
				msg := &sudotypes.MsgEditSudoers{Action: map[string]string{"add": "add_contracts", "remove": "remove_contracts", "bogus": "bogus"}[act], Contracts: cs, Sender: sender}
				op = fmt.Sprintf("sudo edit %s %s %s", sender, act, items(cs))
				res = run(msg.ValidateBasic, func(c sdk.Context) error { _, err := sudoMs.EditSudoers(c, msg); return err })
			case c < 5:
				sender, nr := pick(), pick()
				msg := &sudotypes.MsgChangeRoot{Sender: sender, NewRoot: nr}
				op = fmt.Sprintf("sudo changeRoot %s %s", sender, nr)
				res = run(msg.ValidateBasic, func(c sdk.Context) error { _, err := sudoMs.ChangeRoot(c, msg); return err })
			default:
				t := targets[r.Pick(4)]
				sender := pick()
				if r.Chance(1, 3) {
					s, _ := nibiru.SudoKeeper.Sudoers.Get(ctx)
					if len(s.Contracts) > 0 {
						sender = s.Contracts[r.Pick(len(s.Contracts))]
					}
				}
				seq++
				before := digest(t)
				op = fmt.Sprintf("sudo gated %s %s", t, sender)
				switch t {
				case "oracleParams":
					p, _ := nibiru.OracleKeeper.Params.Get(ctx)
					msg := &oracletypes.MsgEditOracleParams{Sender: sender, Params: &oracletypes.OracleParamsMsg{VotePeriod: p.VotePeriod + 1}}
					// a message without its optional params field passes ValidateBasic: the gate comes first, and with permission there
					// is nothing to apply (an invalid request) — the handler must not dereference the missing payload
					if r.Chance(1, 4) {
						msg.Params = nil
						op = fmt.Sprintf("sudo gatednil %s %s", t, sender)
					}
					res = run(msg.ValidateBasic, func(c sdk.Context) error { _, err := oracleMs.EditOracleParams(c, msg); return err })
				case "inflationParams":
					p, _ := nibiru.InflationKeeper.Params.Get(ctx)
					v := sdkmath.NewIntFromUint64(p.PeriodsPerYear + 1)
					msg := &inflationtypes.MsgEditInflationParams{Sender: sender, PeriodsPerYear: &v}
					res = run(msg.ValidateBasic, func(c sdk.Context) error { _, err := inflMs.EditInflationParams(c, msg); return err })
				case "inflationToggle":
					p, _ := nibiru.InflationKeeper.Params.Get(ctx)
					msg := &inflationtypes.MsgToggleInflation{Sender: sender, Enable: !p.InflationEnabled}
					res = run(msg.ValidateBasic, func(c sdk.Context) error { _, err := inflMs.ToggleInflation(c, msg); return err })
				default:
					name := fmt.Sprintf("n%d", seq)
					msg := &tftypes.MsgSudoSetDenomMetadata{Sender: sender, Metadata: banktypes.Metadata{Base: "utest", Display: "utest", Name: name, Symbol: name,
						DenomUnits: []*banktypes.DenomUnit{{Denom: "utest", Exponent: 0}}}}
					res = run(msg.ValidateBasic, func(c sdk.Context) error { _, err := tfMs.SudoSetDenomMetadata(c, msg); return err })
				}
				if digest(t) != before {
					counts[t]++
				}
			}
			w.Count(strings.Fields(op)[1] + ":" + res)
			w.Step(op, res+" "+render())
		}
	}
	return nil
}
