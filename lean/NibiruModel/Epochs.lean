/-
  NibiruModel.Epochs — model of x/epochs BeginBlocker (x/epochs/abci.go) and AddEpochInfo (x/epochs/keeper/epoch.go).
  Times and durations are integers (nanoseconds); the generator keeps them inside time.Time's exact range.
-/
import NibiruModel.Prelude
namespace Nibiru.Epochs

structure EpochInfo where
  id        : String
  startTime : Int
  duration  : Int
  current   : Nat          -- CurrentEpoch (uint64)
  curStart  : Int          -- CurrentEpochStartTime
  started   : Bool         -- EpochCountingStarted
  curHeight : Int          -- CurrentEpochStartHeight
deriving Repr, DecidableEq, Inhabited

inductive HookCall where
  | afterEnd    (id : String) (n : Nat)
  | beforeStart (id : String) (n : Nat)
deriving Repr, DecidableEq, Inhabited

/-- `shouldEpochStart` -/
def shouldStart (e : EpochInfo) (t : Int) : Bool :=
  if !e.started then true else decide (e.curStart + e.duration ≤ t)

/-- whether this block advances the epoch (the two early `return false` guards of the callback) -/
def advances (e : EpochInfo) (t : Int) : Bool :=
  !(decide (t < e.startTime)) && shouldStart e t

/-- one callback invocation of `BeginBlocker` for one epoch info at block `(t,h)` -/
def tick (t h : Int) (e : EpochInfo) : EpochInfo × List HookCall :=
  if !(advances e t) then (e, [])
  else if !e.started then
    ({ e with curHeight := h, curStart := t, started := true, current := 1 },
      [.beforeStart e.id 1])
  else
    ({ e with curHeight := h, curStart := t, current := e.current + 1 },
      [.afterEnd e.id e.current, .beforeStart e.id (e.current + 1)])

/-- the store is a list sorted by identifier (collections iterate in key order) -/
abbrev State := List EpochInfo

def beginBlock (t h : Int) : State → State × List HookCall
  | [] => ([], [])
  | e :: es =>
    let (e', c) := tick t h e
    let (es', cs) := beginBlock t h es
    (e' :: es', c ++ cs)

def exists? (s : State) (id : String) : Bool := s.any (·.id = id)

def insert (s : State) (e : EpochInfo) : State :=
  match s with
  | [] => [e]
  | x :: xs => if e.id < x.id then e :: x :: xs else if e.id = x.id then e :: xs else x :: insert xs e

/-- `AddEpochInfo` : error classes  invalid | exists | ok -/
def addEpochInfo (s : State) (t h : Int) (e : EpochInfo) : State × String :=
  if e.id = "" then (s, "invalid")
  else if e.duration = 0 then (s, "invalid")
  else if e.curHeight < 0 then (s, "invalid")
  else if exists? s e.id then (s, "exists")
  else
    let st := if e.startTime = 0 then t else e.startTime   -- zero time.Time is encoded as 0 by the harness
    (insert s { e with startTime := st, curHeight := h }, "ok")

/-! ### line protocol -/

def HookCall.render : HookCall → String
  | .afterEnd id n => s!"A:{id}:{n}"
  | .beforeStart id n => s!"B:{id}:{n}"

def EpochInfo.render (e : EpochInfo) : String :=
  s!"{e.id},{e.startTime},{e.duration},{e.current},{e.curStart},{boolStr e.started},{e.curHeight}"

def renderState (s : State) : String := joinWith ";" (s.map EpochInfo.render)

/-- ops:  `add <t> <h> <id> <start> <dur> <cur> <curStart> <started> <curHeight>`  |  `block <t> <h>` -/
def step (s : State) (args : List String) : State × String :=
  match args with
  | ["block", t, h] =>
    match parseInt? t, parseInt? h with
    | some t, some h =>
      let (s', calls) := beginBlock t h s
      (s', joinWith " " (calls.map HookCall.render) ++ " | " ++ renderState s')
    | _, _ => (s, "bad-op")
  | ["add", t, h, id, st, d, cur, cs, started, ch] =>
    match parseInt? t, parseInt? h, parseInt? st, parseInt? d, parseNat? cur, parseInt? cs, parseInt? ch with
    | some t, some h, some st, some d, some cur, some cs, some ch =>
      let id := if id = "_" then "" else id
      let (s', r) := addEpochInfo s t h
        { id := id, startTime := st, duration := d, current := cur, curStart := cs, started := started = "1", curHeight := ch }
      (s', r ++ " | " ++ renderState s')
    | _, _, _, _, _, _, _ => (s, "bad-op")
  | _ => (s, "bad-op")

end Nibiru.Epochs
