/-
  SDBCommit — what `StateDB.Commit` (NibiruModel.StateDB.commit / commitInto) persists.

  For every address of the journal's dirties map whose object is cached, `commitInto` writes exactly the StateDB's final view of
  that account (nonce, code hash, balance in whole unibi; every slot's current value) into the store, deletes self-destructed
  accounts, and leaves every other account and slot of the store untouched — for stores, objects and dirties maps of any size.
  The order in which addresses (sorted) and slots (sorted) are written does not matter for the result, which is why the proof goes
  through a generic "effect of a fold at one key" lemma.
-/
import NibiruModel.StateDB
import NibiruProofs.SDBRevert

namespace Nibiru.SDB
open Nibiru

/-! ### sortNat: same elements, no duplicates -/

theorem mem_insertSortedNat (l : List Nat) (x y : Nat) : y ∈ insertSortedNat l x ↔ y = x ∨ y ∈ l := by
  induction l with
  | nil => simp [insertSortedNat]
  | cons z zs ih =>
    unfold insertSortedNat
    by_cases h1 : x ≤ z
    · by_cases h2 : x = z
      · subst h2; simp
      · simp [h1, h2]
    · simp only [h1, if_false, List.mem_cons, ih]
      constructor
      · rintro (h | h | h)
        · exact Or.inr (Or.inl h)
        · exact Or.inl h
        · exact Or.inr (Or.inr h)
      · rintro (h | h | h)
        · exact Or.inr (Or.inl h)
        · exact Or.inl h
        · exact Or.inr (Or.inr h)

theorem insertSortedNat_sorted (l : List Nat) (x : Nat) (h : l.Pairwise (· < ·)) : (insertSortedNat l x).Pairwise (· < ·) := by
  induction l with
  | nil => simp [insertSortedNat]
  | cons z zs ih =>
    unfold insertSortedNat
    rw [List.pairwise_cons] at h
    by_cases h1 : x ≤ z
    · by_cases h2 : x = z
      · subst h2; simp only [Nat.le_refl, if_true]; exact List.pairwise_cons.mpr h
      · simp only [h1, h2, if_true, if_false]
        have hlt : x < z := by omega
        refine List.pairwise_cons.mpr ⟨?_, List.pairwise_cons.mpr h⟩
        intro y hy
        rcases List.mem_cons.mp hy with e | e
        · omega
        · have := h.1 y e; omega
    · simp only [h1, if_false]
      refine List.pairwise_cons.mpr ⟨?_, ih h.2⟩
      intro y hy
      rcases (mem_insertSortedNat zs x y).mp hy with e | e
      · omega
      · exact h.1 y e

theorem mem_sortNat_aux (l acc : List Nat) (y : Nat) : y ∈ l.foldl insertSortedNat acc ↔ y ∈ acc ∨ y ∈ l := by
  induction l generalizing acc with
  | nil => simp
  | cons x xs ih =>
    simp only [List.foldl_cons, ih, mem_insertSortedNat, List.mem_cons]
    constructor
    · rintro ((h | h) | h)
      · exact Or.inr (Or.inl h)
      · exact Or.inl h
      · exact Or.inr (Or.inr h)
    · rintro (h | h | h)
      · exact Or.inl (Or.inr h)
      · exact Or.inl (Or.inl h)
      · exact Or.inr h

theorem mem_sortNat (l : List Nat) (y : Nat) : y ∈ sortNat l ↔ y ∈ l := by
  unfold sortNat; rw [mem_sortNat_aux]; simp

theorem sortNat_sorted_aux (l acc : List Nat) (h : acc.Pairwise (· < ·)) : (l.foldl insertSortedNat acc).Pairwise (· < ·) := by
  induction l generalizing acc with
  | nil => simpa
  | cons x xs ih => exact ih _ (insertSortedNat_sorted acc x h)

theorem sortNat_nodup (l : List Nat) : (sortNat l).Nodup := by
  have h : (sortNat l).Pairwise (· < ·) := sortNat_sorted_aux l [] List.Pairwise.nil
  exact h.imp (fun hab => by omega)

/-! ### the effect of a fold at one key -/

theorem foldl_notin {β γ : Type} (f : β → Nat → β) (P : β → γ) (a : Nat)
    (hframe : ∀ acc b, b ≠ a → P (f acc b) = P acc) (L : List Nat) (acc : β) (h : a ∉ L) : P (L.foldl f acc) = P acc := by
  induction L generalizing acc with
  | nil => rfl
  | cons b L ih =>
    simp only [List.mem_cons, not_or] at h
    simp only [List.foldl_cons]
    rw [ih _ h.2, hframe acc b (fun e => h.1 e.symm)]

theorem foldl_at {β γ : Type} (f : β → Nat → β) (P : β → γ) (a : Nat)
    (hframe : ∀ acc b, b ≠ a → P (f acc b) = P acc) (L : List Nat) (acc : β) (hnd : L.Nodup) (h : a ∈ L) :
    ∃ acc', P acc' = P acc ∧ P (L.foldl f acc) = P (f acc' a) := by
  induction L generalizing acc with
  | nil => cases h
  | cons b L ih =>
    rw [List.nodup_cons] at hnd
    simp only [List.foldl_cons]
    by_cases hb : b = a
    · subst hb
      exact ⟨acc, rfl, foldl_notin f P b hframe L _ hnd.1⟩
    · have ha : a ∈ L := by
        rcases List.mem_cons.mp h with e | e
        · exact absurd e.symm hb
        · exact e
      obtain ⟨acc', h1, h2⟩ := ih (f acc b) hnd.2 ha
      exact ⟨acc', by rw [h1, hframe acc b hb], h2⟩

/-! ### association lists -/

theorem find?_filter_key {κ ν : Type} [DecidableEq κ] (m : AList κ ν) (p : κ → Bool) (k : κ) (hp : p k = true) :
    AList.find? (m.filter (fun e => p e.1)) k = AList.find? m k := by
  induction m with
  | nil => rfl
  | cons e t ih =>
    obtain ⟨k', v⟩ := e
    by_cases h1 : k' = k
    · subst h1; simp [List.filter, hp, AList.find?]
    · by_cases h2 : p k' = true
      · simp [List.filter, h2, AList.find?, h1, ih]
      · simp [List.filter, h2, AList.find?, h1, ih]

theorem find?_none_iff {κ ν : Type} [DecidableEq κ] (m : AList κ ν) (k : κ) : AList.find? m k = none ↔ k ∉ m.map (·.1) := by
  induction m with
  | nil => simp [AList.find?]
  | cons e t ih =>
    obtain ⟨k', v⟩ := e
    by_cases h1 : k' = k
    · subst h1; simp [AList.find?]
    · simp only [AList.find?, h1, if_false, ih, List.map_cons, List.mem_cons, not_or]
      exact ⟨fun h => ⟨fun e => h1 e.symm, h⟩, fun h => h.2⟩

theorem foldl_const {α β γ : Type} (f : β → α → β) (Q : β → γ) (h : ∀ acc x, Q (f acc x) = Q acc) (L : List α) (acc : β) :
    Q (L.foldl f acc) = Q acc := by
  induction L generalizing acc with
  | nil => rfl
  | cons x L ih => simp only [List.foldl_cons]; rw [ih, h]

/-! ### the store operations touch one account / one slot -/

theorem acct_setAcct_self (st : Store) (a : Nat) (x : StoreAcc) : (st.setAcct a x).acct a = some x := by
  unfold Store.setAcct Store.acct; exact AList.find?_set_self _ _ _
theorem acct_setAcct_ne (st : Store) (a b : Nat) (x : StoreAcc) (h : a ≠ b) : (st.setAcct a x).acct b = st.acct b := by
  unfold Store.setAcct Store.acct; exact AList.find?_set_ne _ _ _ _ h
theorem slot_setAcct (st : Store) (a b k : Nat) (x : StoreAcc) : (st.setAcct a x).slot b k = st.slot b k := rfl
theorem acct_setSlot (st : Store) (a k v b : Nat) : (st.setSlot a k v).acct b = st.acct b := rfl
theorem slot_setSlot_self (st : Store) (a k v : Nat) : (st.setSlot a k v).slot a k = v := by
  unfold Store.setSlot Store.slot; simp [AList.find?_set_self]
theorem slot_setSlot_ne (st : Store) (a k v b k' : Nat) (h : (a, k) ≠ (b, k')) : (st.setSlot a k v).slot b k' = st.slot b k' := by
  unfold Store.setSlot Store.slot; simp only; rw [AList.find?_set_ne _ _ _ _ h]

theorem acct_deleteAcct_self (st : Store) (a : Nat) : (st.deleteAcct a).acct a = none := by
  unfold Store.deleteAcct
  cases h : st.acct a with
  | none => simpa using h
  | some x => simp only [Store.acct]; exact AList.find?_erase_self _ _
theorem acct_deleteAcct_ne (st : Store) (a b : Nat) (h : a ≠ b) : (st.deleteAcct a).acct b = st.acct b := by
  unfold Store.deleteAcct
  cases st.acct a with
  | none => rfl
  | some x => simp only [Store.acct]; exact AList.find?_erase_ne _ _ _ h
theorem slot_deleteAcct_ne (st : Store) (a b k : Nat) (h : a ≠ b) : (st.deleteAcct a).slot b k = st.slot b k := by
  unfold Store.deleteAcct
  cases st.acct a with
  | none => rfl
  | some x =>
    simp only [Store.slot]
    have := find?_filter_key st.storage (fun key => decide (key.1 ≠ a)) (b, k) (by simp; exact fun e => h e.symm)
    rw [this]
theorem slot_deleteAcct_self (st : Store) (a k : Nat) (x : StoreAcc) (hx : st.acct a = some x) : (st.deleteAcct a).slot a k = 0 := by
  unfold Store.deleteAcct
  rw [hx]
  simp only [Store.slot]
  have : AList.find? (st.storage.filter (fun e => decide (e.1.1 ≠ a))) (a, k) = none := by
    rw [find?_none_iff]
    intro hm
    obtain ⟨e, he, hk⟩ := List.mem_map.mp hm
    have := (List.mem_filter.mp he).2
    simp [hk] at this
  rw [this]; rfl

/-! ### flushObj: the account record, then every dirty slot -/

def flushStep (a : Nat) (acc : Store × Obj) (k : Nat) : Store × Obj :=
  let v := (AList.find? acc.2.dirty k).getD 0
  if v = (AList.find? acc.2.origin k).getD 0 then acc
  else (acc.1.setSlot a k v, { acc.2 with origin := AList.set acc.2.origin k v })

theorem flushObj_eq (st : Store) (a : Nat) (o : Obj) :
    flushObj st a o = (sortNat (o.dirty.map (·.1))).foldl (flushStep a)
      (st.setAcct a { nonce := o.nonce, codeHash := o.codeHash, balance := Int.tdiv o.balance weiPerUnibi }, o) := rfl

theorem flushStep_dirty (a : Nat) (acc : Store × Obj) (k : Nat) : (flushStep a acc k).2.dirty = acc.2.dirty := by
  unfold flushStep; simp only; split <;> rfl
theorem flushStep_acct (a : Nat) (acc : Store × Obj) (k b : Nat) : (flushStep a acc k).1.acct b = acc.1.acct b := by
  unfold flushStep; simp only; split <;> rfl
theorem flushStep_slot_ne (a : Nat) (acc : Store × Obj) (k b k' : Nat) (h : (a, k) ≠ (b, k')) :
    (flushStep a acc k).1.slot b k' = acc.1.slot b k' := by
  unfold flushStep; simp only; split
  · rfl
  · exact slot_setSlot_ne _ _ _ _ _ _ h
theorem flushStep_origin_ne (a : Nat) (acc : Store × Obj) (k k' : Nat) (h : k ≠ k') :
    AList.find? (flushStep a acc k).2.origin k' = AList.find? acc.2.origin k' := by
  unfold flushStep; simp only; split
  · rfl
  · exact AList.find?_set_ne _ _ _ _ h
theorem flushStep_slot_self (a : Nat) (acc : Store × Obj) (k : Nat) :
    (flushStep a acc k).1.slot a k =
      if (AList.find? acc.2.dirty k).getD 0 = (AList.find? acc.2.origin k).getD 0 then acc.1.slot a k
      else (AList.find? acc.2.dirty k).getD 0 := by
  unfold flushStep; simp only; split
  · rfl
  · exact slot_setSlot_self _ _ _ _

/-- the account record written by `flushObj` -/
theorem flushObj_acct_self (st : Store) (a : Nat) (o : Obj) :
    (flushObj st a o).1.acct a = some { nonce := o.nonce, codeHash := o.codeHash, balance := Int.tdiv o.balance weiPerUnibi } := by
  rw [flushObj_eq, foldl_const (flushStep a) (fun acc => acc.1.acct a) (fun acc k => flushStep_acct a acc k a)]
  exact acct_setAcct_self _ _ _

theorem flushObj_acct_ne (st : Store) (a b : Nat) (o : Obj) (h : a ≠ b) : (flushObj st a o).1.acct b = st.acct b := by
  rw [flushObj_eq, foldl_const (flushStep a) (fun acc => acc.1.acct b) (fun acc k => flushStep_acct a acc k b)]
  exact acct_setAcct_ne _ _ _ _ h

theorem flushObj_slot_ne (st : Store) (a b k : Nat) (o : Obj) (h : a ≠ b) : (flushObj st a o).1.slot b k = st.slot b k := by
  rw [flushObj_eq, foldl_const (flushStep a) (fun acc => acc.1.slot b k)
    (fun acc k' => flushStep_slot_ne a acc k' b k (fun e => h (congrArg Prod.fst e)))]
  rfl

/-- every slot of the flushed account: a dirty value that differs from the cached origin is written, everything else is kept -/
theorem flushObj_slot_self (st : Store) (a k : Nat) (o : Obj) :
    (flushObj st a o).1.slot a k =
      match AList.find? o.dirty k with
      | some v => if v = (AList.find? o.origin k).getD 0 then st.slot a k else v
      | none => st.slot a k := by
  rw [flushObj_eq]
  let P : Store × Obj → List (Nat × Nat) × Option Nat × Nat := fun acc => (acc.2.dirty, AList.find? acc.2.origin k, acc.1.slot a k)
  have hframe : ∀ acc k', k' ≠ k → P (flushStep a acc k') = P acc := by
    intro acc k' hk
    simp only [P]
    rw [flushStep_dirty, flushStep_origin_ne a acc k' k hk, flushStep_slot_ne a acc k' a k (fun e => hk (congrArg Prod.snd e))]
  cases hd : AList.find? o.dirty k with
  | none =>
    have hnot : k ∉ sortNat (o.dirty.map (·.1)) := by rw [mem_sortNat]; exact (find?_none_iff _ _).mp hd
    have := foldl_notin (flushStep a) P k hframe _
      (st.setAcct a { nonce := o.nonce, codeHash := o.codeHash, balance := Int.tdiv o.balance weiPerUnibi }, o) hnot
    simp only [P] at this
    have h3 := congrArg (fun t => t.2.2) this
    simp only [slot_setAcct] at h3
    exact h3
  | some v =>
    have hin : k ∈ sortNat (o.dirty.map (·.1)) := by
      rw [mem_sortNat]
      by_cases hm : k ∈ o.dirty.map (·.1)
      · exact hm
      · rw [(find?_none_iff _ _).mpr hm] at hd; cases hd
    obtain ⟨acc', h1, h2⟩ := foldl_at (flushStep a) P k hframe _
      (st.setAcct a { nonce := o.nonce, codeHash := o.codeHash, balance := Int.tdiv o.balance weiPerUnibi }, o) (sortNat_nodup _) hin
    simp only [P] at h1 h2
    have e1 : acc'.2.dirty = o.dirty := congrArg (fun t => t.1) h1
    have e2 : AList.find? acc'.2.origin k = AList.find? o.origin k := congrArg (fun t => t.2.1) h1
    have e3 : acc'.1.slot a k = st.slot a k := congrArg (fun t => t.2.2) h1
    have h3 := congrArg (fun t => t.2.2) h2
    simp only at h3
    rw [h3, flushStep_slot_self, e1, e2, e3, hd]
    rfl

/-! ### commitInto: one step per dirty address -/

def stepC (acc : S × Store) (a : Nat) : S × Store :=
  match getObj acc.1 a with
  | (s1, none) => ({ s1 with dirties := AList.set s1.dirties a 0 }, acc.2)
  | (s1, some o) =>
    if o.suicided then
      ({ s1 with objs := AList.erase s1.objs a, dirties := AList.set s1.dirties a 0 }, acc.2.deleteAcct a)
    else
      let (st', o') := flushObj acc.2 a o
      ({ (setObj s1 a o') with dirties := AList.set s1.dirties a 0 }, st')

theorem commitInto_eq (s : S) (st : Store) : commitInto s st = (sortNat (s.dirties.map (·.1))).foldl stepC (s, st) := rfl

theorem getObj_objs_ne (s : S) (a b : Nat) (h : b ≠ a) : AList.find? (getObj s b).1.objs a = AList.find? s.objs a := by
  unfold getObj
  cases AList.find? s.objs b with
  | some o => rfl
  | none =>
    simp only
    cases loadObj (curStore s) b with
    | none => rfl
    | some o => exact AList.find?_set_ne _ _ _ _ h

/-- what one step can see and change of account `a`: its cached object, its account record, its slots -/
def atAddr (a : Nat) (acc : S × Store) : Option Obj × Option StoreAcc × (Nat → Nat) :=
  (AList.find? acc.1.objs a, acc.2.acct a, fun k => acc.2.slot a k)

theorem stepC_frame (a : Nat) (acc : S × Store) (b : Nat) (h : b ≠ a) : atAddr a (stepC acc b) = atAddr a acc := by
  unfold stepC atAddr
  have hobj := getObj_objs_ne acc.1 a b h
  rcases hg : getObj acc.1 b with ⟨s1, _ | o⟩
  · rw [hg] at hobj; simp only; rw [← hobj]
  · rw [hg] at hobj
    simp only
    cases hs : o.suicided with
    | true =>
      simp only [if_true]
      rw [AList.find?_erase_ne _ _ _ h, hobj, acct_deleteAcct_ne _ _ _ h]
      congr 2
      funext k
      exact slot_deleteAcct_ne _ _ _ _ h
    | false =>
      simp only [Bool.false_eq_true, if_false, setObj]
      rw [AList.find?_set_ne _ _ _ _ h, hobj, flushObj_acct_ne _ _ _ _ h]
      congr 2
      funext k
      exact flushObj_slot_ne _ _ _ _ _ h

theorem stepC_at_live (a : Nat) (acc : S × Store) (o : Obj) (ho : AList.find? acc.1.objs a = some o) (hs : o.suicided = false) :
    (stepC acc a).2 = (flushObj acc.2 a o).1 := by
  unfold stepC
  rw [getObj_cached' acc.1 a o ho]
  simp [hs]

theorem stepC_at_dead (a : Nat) (acc : S × Store) (o : Obj) (ho : AList.find? acc.1.objs a = some o) (hs : o.suicided = true) :
    (stepC acc a).2 = acc.2.deleteAcct a := by
  unfold stepC
  rw [getObj_cached' acc.1 a o ho]
  simp [hs]

/-- an address that is not in the dirties map is not written -/
theorem commitInto_frame (s : S) (st : Store) (a : Nat) (hd : a ∉ s.dirties.map (·.1)) :
    (commitInto s st).2.acct a = st.acct a ∧ ∀ k, (commitInto s st).2.slot a k = st.slot a k := by
  have h := foldl_notin stepC (atAddr a) a (stepC_frame a) (sortNat (s.dirties.map (·.1))) (s, st)
    (by rw [mem_sortNat]; exact hd)
  rw [← commitInto_eq] at h
  unfold atAddr at h
  exact ⟨congrArg (fun t => t.2.1) h, fun k => congrFun (congrArg (fun t => t.2.2) h) k⟩

/-- a live dirty account: the store gets the object's nonce, code hash and balance (whole unibi) -/
theorem commitInto_acct (s : S) (st : Store) (a : Nat) (o : Obj) (ho : AList.find? s.objs a = some o)
    (hd : a ∈ s.dirties.map (·.1)) (hs : o.suicided = false) :
    (commitInto s st).2.acct a = some { nonce := o.nonce, codeHash := o.codeHash, balance := Int.tdiv o.balance weiPerUnibi } := by
  obtain ⟨acc', h1, h2⟩ := foldl_at stepC (atAddr a) a (stepC_frame a) (sortNat (s.dirties.map (·.1))) (s, st)
    (sortNat_nodup _) (by rw [mem_sortNat]; exact hd)
  rw [← commitInto_eq] at h2
  unfold atAddr at h1 h2
  have e1 : AList.find? acc'.1.objs a = some o := (congrArg (fun t => t.1) h1).trans ho
  have h3 := congrArg (fun t => t.2.1) h2
  simp only at h3
  rw [h3, stepC_at_live a acc' o e1 hs, flushObj_acct_self]

/-- … and every slot: a dirty value that differs from the cached origin is written, the rest is kept -/
theorem commitInto_slot (s : S) (st : Store) (a k : Nat) (o : Obj) (ho : AList.find? s.objs a = some o)
    (hd : a ∈ s.dirties.map (·.1)) (hs : o.suicided = false) :
    (commitInto s st).2.slot a k =
      match AList.find? o.dirty k with
      | some v => if v = (AList.find? o.origin k).getD 0 then st.slot a k else v
      | none => st.slot a k := by
  obtain ⟨acc', h1, h2⟩ := foldl_at stepC (atAddr a) a (stepC_frame a) (sortNat (s.dirties.map (·.1))) (s, st)
    (sortNat_nodup _) (by rw [mem_sortNat]; exact hd)
  rw [← commitInto_eq] at h2
  unfold atAddr at h1 h2
  have e1 : AList.find? acc'.1.objs a = some o := (congrArg (fun t => t.1) h1).trans ho
  have e3 : acc'.2.slot a k = st.slot a k := congrFun (congrArg (fun t => t.2.2) h1) k
  have h3 := congrFun (congrArg (fun t => t.2.2) h2) k
  simp only at h3
  rw [h3, stepC_at_live a acc' o e1 hs, flushObj_slot_self, e3]

/-- a self-destructed dirty account is removed from the store -/
theorem commitInto_suicided (s : S) (st : Store) (a : Nat) (o : Obj) (ho : AList.find? s.objs a = some o)
    (hd : a ∈ s.dirties.map (·.1)) (hs : o.suicided = true) :
    (commitInto s st).2.acct a = none ∧ ∀ k x, st.acct a = some x → (commitInto s st).2.slot a k = 0 := by
  obtain ⟨acc', h1, h2⟩ := foldl_at stepC (atAddr a) a (stepC_frame a) (sortNat (s.dirties.map (·.1))) (s, st)
    (sortNat_nodup _) (by rw [mem_sortNat]; exact hd)
  rw [← commitInto_eq] at h2
  unfold atAddr at h1 h2
  have e1 : AList.find? acc'.1.objs a = some o := (congrArg (fun t => t.1) h1).trans ho
  have e2 : acc'.2.acct a = st.acct a := congrArg (fun t => t.2.1) h1
  refine ⟨?_, fun k x hx => ?_⟩
  · have h3 := congrArg (fun t => t.2.1) h2
    simp only at h3
    rw [h3, stepC_at_dead a acc' o e1 hs, acct_deleteAcct_self]
  · have h3 := congrFun (congrArg (fun t => t.2.2) h2) k
    simp only at h3
    rw [h3, stepC_at_dead a acc' o e1 hs]
    exact slot_deleteAcct_self _ _ _ x (e2.trans hx)

/-! ### well-formed objects: OriginStorage caches the store, every dirty slot has a cached origin -/

def WFObj (st : Store) (a : Nat) (o : Obj) : Prop :=
  (∀ k w, AList.find? o.origin k = some w → st.slot a k = w) ∧
  (∀ k v, AList.find? o.dirty k = some v → ∃ w, AList.find? o.origin k = some w)

/-- no precompile cache context, every cached object well-formed -/
def WF (s : S) : Prop := s.cache = none ∧ ∀ a o, AList.find? s.objs a = some o → WFObj s.txStore a o

theorem WFObj_empty (st : Store) (a : Nat) (o : Obj) (h1 : o.origin = []) (h2 : o.dirty = []) : WFObj st a o := by
  constructor
  · intro k w h; rw [h1] at h; cases h
  · intro k v h; rw [h2] at h; cases h

theorem WFObj_congr (st : Store) (a : Nat) (o o' : Obj) (h : WFObj st a o) (h1 : o'.origin = o.origin) (h2 : o'.dirty = o.dirty) :
    WFObj st a o' := by
  unfold WFObj; rw [h1, h2]; exact h

theorem WF_fresh (st : Store) : WF { txStore := st } := ⟨rfl, fun a o h => by cases h⟩

theorem WF_setObj (s : S) (a : Nat) (o : Obj) (h : WF s) (ho : WFObj s.txStore a o) : WF (setObj s a o) := by
  refine ⟨h.1, fun b o' hb => ?_⟩
  by_cases e : a = b
  · subst e
    rw [find_setObj_same] at hb
    cases hb; exact ho
  · rw [find_setObj_other _ _ _ _ e] at hb
    exact h.2 b o' hb

theorem WF_append (s : S) (e : Entry) (h : WF s) : WF (append s e) := h

theorem WF_getObj (s : S) (a : Nat) (h : WF s) :
    WF (getObj s a).1 ∧ (getObj s a).1.txStore = s.txStore ∧ ∀ o, (getObj s a).2 = some o → WFObj s.txStore a o := by
  unfold getObj
  cases hf : AList.find? s.objs a with
  | some o => exact ⟨h, rfl, fun o' e => by cases e; exact h.2 a o hf⟩
  | none =>
    simp only
    cases hl : loadObj (curStore s) a with
    | none => exact ⟨h, rfl, fun o' e => by cases e⟩
    | some o =>
      have hw : WFObj s.txStore a o := by
        unfold loadObj at hl
        cases hx : (curStore s).acct a with
        | none => rw [hx] at hl; cases hl
        | some x => rw [hx] at hl; cases hl; exact WFObj_empty _ _ _ rfl rfl
      exact ⟨WF_setObj s a o h hw, rfl, fun o' e => by cases e; exact hw⟩

theorem WF_getOrNew (s : S) (a : Nat) (h : WF s) :
    WF (getOrNew s a).1 ∧ (getOrNew s a).1.txStore = s.txStore ∧ WFObj s.txStore a (getOrNew s a).2 := by
  unfold getOrNew
  obtain ⟨h1, h2, h3⟩ := WF_getObj s a h
  rcases hg : getObj s a with ⟨s1, _ | o⟩
  · rw [hg] at h1 h2
    simp only at h1 h2
    have hw : WFObj s1.txStore a {} := WFObj_empty _ _ _ rfl rfl
    refine ⟨WF_setObj _ a {} (WF_append s1 _ h1) hw, h2, WFObj_empty _ _ _ rfl rfl⟩
  · rw [hg] at h1 h2 h3
    exact ⟨h1, h2, h3 o rfl⟩

theorem WFObj_cacheOrigin (s : S) (a : Nat) (o : Obj) (k : Nat) (h : WFObj s.txStore a o) :
    WFObj s.txStore a (cacheOrigin s a o k) ∧ (cacheOrigin s a o k).dirty = o.dirty ∧
      ∃ w, AList.find? (cacheOrigin s a o k).origin k = some w := by
  unfold cacheOrigin
  cases hk : AList.find? o.origin k with
  | some w => exact ⟨h, rfl, w, hk⟩
  | none =>
    simp only
    refine ⟨⟨?_, ?_⟩, by first | rfl | trivial, _, AList.find?_set_self _ _ _⟩
    · intro k' w hw
      by_cases e : k = k'
      · subst e; rw [AList.find?_set_self] at hw; cases hw; rfl
      · rw [AList.find?_set_ne _ _ _ _ e] at hw; exact h.1 k' w hw
    · intro k' v hv
      obtain ⟨w, hw⟩ := h.2 k' v hv
      by_cases e : k = k'
      · subst e; exact ⟨_, AList.find?_set_self _ _ _⟩
      · exact ⟨w, by rw [AList.find?_set_ne _ _ _ _ e]; exact hw⟩

theorem WFObj_touchState (s : S) (a : Nat) (o : Obj) (k : Nat) (h : WFObj s.txStore a o) :
    WFObj s.txStore a (touchState s a o k) ∧ (touchState s a o k).dirty = o.dirty ∧
      ∃ w, AList.find? (touchState s a o k).origin k = some w := by
  unfold touchState
  cases hd : AList.find? o.dirty k with
  | some v => exact ⟨h, rfl, h.2 k v hd⟩
  | none => exact WFObj_cacheOrigin s a o k h

theorem WFObj_setDirty (st : Store) (a : Nat) (o : Obj) (k v : Nat) (h : WFObj st a o) (hk : ∃ w, AList.find? o.origin k = some w) :
    WFObj st a { o with dirty := AList.set o.dirty k v } := by
  refine ⟨h.1, ?_⟩
  intro k' v' hv
  by_cases e : k = k'
  · subst e; exact hk
  · simp only at hv; rw [AList.find?_set_ne _ _ _ _ e] at hv; exact h.2 k' v' hv

/-- every write call of the interpreter keeps the StateDB well-formed -/
theorem WF_applyW (s : S) (w : WOp) (h : WF s) : WF (applyW s w) ∧ (applyW s w).txStore = s.txStore := by
  cases w with
  | addBalance a d =>
    simp only [applyW, addBalance]
    obtain ⟨h1, h2, h3⟩ := WF_getOrNew s a h
    by_cases hd : d = 0
    · simp only [hd, if_true]; exact ⟨h1, h2⟩
    · simp only [hd, if_false]
      exact ⟨WF_setObj _ a _ (WF_append _ _ h1) (WFObj_congr _ a _ _ (by rw [show (append (getOrNew s a).1 _).txStore = s.txStore from h2]; exact h3) rfl rfl), h2⟩
  | setNonce a n =>
    simp only [applyW, setNonce]
    obtain ⟨h1, h2, h3⟩ := WF_getOrNew s a h
    exact ⟨WF_setObj _ a _ (WF_append _ _ h1) (WFObj_congr _ a _ _ (by rw [show (append (getOrNew s a).1 _).txStore = s.txStore from h2]; exact h3) rfl rfl), h2⟩
  | setCode a c =>
    simp only [applyW, setCode]
    obtain ⟨h1, h2, h3⟩ := WF_getOrNew s a h
    exact ⟨WF_setObj _ a _ (WF_append _ _ h1) (WFObj_congr _ a _ _ (by rw [show (append (getOrNew s a).1 _).txStore = s.txStore from h2]; exact h3) rfl rfl), h2⟩
  | setState a k v =>
    simp only [applyW, setState]
    obtain ⟨h1, h2, h3⟩ := WF_getOrNew s a h
    rw [← h2] at h3
    obtain ⟨t1, t2, t3⟩ := WFObj_touchState (getOrNew s a).1 a (getOrNew s a).2 k h3
    split
    · exact ⟨WF_setObj _ a _ h1 t1, h2⟩
    · exact ⟨WF_setObj _ a _ (WF_append _ _ h1) (WFObj_setDirty _ a _ k v t1 t3), h2⟩
  | suicide a =>
    simp only [applyW, suicide]
    obtain ⟨h1, h2, h3⟩ := WF_getObj s a h
    rcases hg : getObj s a with ⟨s1, _ | o⟩
    · rw [hg] at h1 h2; exact ⟨h1, h2⟩
    · rw [hg] at h1 h2 h3
      simp only at h1 h2
      have ho := h3 o rfl
      rw [← h2] at ho
      exact ⟨WF_setObj _ a _ (WF_append _ _ h1) (WFObj_congr _ a _ _ ho rfl rfl), h2⟩
  | addLog => exact ⟨h, rfl⟩
  | addRefund g => exact ⟨h, rfl⟩
  | subRefund g =>
    simp only [applyW, subRefund]
    split
    · exact ⟨h, rfl⟩
    · exact ⟨h, rfl⟩
  | addAddr a =>
    simp only [applyW, addAddr]
    split
    · exact ⟨h, rfl⟩
    · exact ⟨h, rfl⟩
  | addSlot a k =>
    simp only [applyW, addSlot, addAddr]
    split <;> split <;> exact ⟨h, rfl⟩

theorem WF_applyAll (ws : List WOp) (s : S) (h : WF s) : WF (applyAll s ws) ∧ (applyAll s ws).txStore = s.txStore := by
  induction ws generalizing s with
  | nil => exact ⟨h, rfl⟩
  | cons w ws ih =>
    obtain ⟨h1, h2⟩ := WF_applyW s w h
    obtain ⟨h3, h4⟩ := ih (applyW s w) h1
    exact ⟨h3, h4.trans h2⟩

/-! ### Commit -/

theorem commit_txStore (s : S) (hc : s.cache = none) : (commit s).txStore = (commitInto s s.txStore).2 := by
  cases s with
  | mk txStore cache objs journal dirties revisions nextRev refund logs alAddrs alSlots cacheCount =>
    simp only at hc
    subst hc
    rfl

/-- **What Commit persists.** Without a precompile cache context, for a live dirty account whose object is well-formed, the
    committed store holds exactly the StateDB's view: nonce, code hash, balance (whole unibi) and the current value of every slot. -/
theorem commit_persists_view (s : S) (h : WF s) (a : Nat) (o : Obj) (ho : AList.find? s.objs a = some o)
    (hd : a ∈ s.dirties.map (·.1)) (hs : o.suicided = false) :
    (commit s).txStore.acct a = some { nonce := o.nonce, codeHash := o.codeHash, balance := Int.tdiv o.balance weiPerUnibi } ∧
    ∀ k, (commit s).txStore.slot a k = objState s a o k := by
  rw [commit_txStore s h.1]
  refine ⟨commitInto_acct s _ a o ho hd hs, fun k => ?_⟩
  rw [commitInto_slot s _ a k o ho hd hs]
  obtain ⟨w1, w2⟩ := h.2 a o ho
  unfold objState committed
  cases hdk : AList.find? o.dirty k with
  | some v =>
    obtain ⟨w, hw⟩ := w2 k v hdk
    simp only [hw, Option.getD_some]
    split
    · rename_i e; rw [w1 k w hw, e]
    · rfl
  | none =>
    simp only
    cases hok : AList.find? o.origin k with
    | some w => exact w1 k w hok
    | none => rfl

/-- an account that no journal entry dirtied is left alone by Commit -/
theorem commit_frame (s : S) (hc : s.cache = none) (a : Nat) (hd : a ∉ s.dirties.map (·.1)) :
    (commit s).txStore.acct a = s.txStore.acct a ∧ ∀ k, (commit s).txStore.slot a k = s.txStore.slot a k := by
  rw [commit_txStore s hc]; exact commitInto_frame s _ a hd

/-- a self-destructed dirty account is gone after Commit -/
theorem commit_deletes_suicided (s : S) (hc : s.cache = none) (a : Nat) (o : Obj) (ho : AList.find? s.objs a = some o)
    (hd : a ∈ s.dirties.map (·.1)) (hs : o.suicided = true) :
    (commit s).txStore.acct a = none ∧ ∀ k x, s.txStore.acct a = some x → (commit s).txStore.slot a k = 0 := by
  rw [commit_txStore s hc]; exact commitInto_suicided s _ a o ho hd hs

end Nibiru.SDB
