/-
  NibiruModel.StateDB — x/evm/statedb (statedb.go, journal.go, state_object.go) together with the keeper side it commits to
  (x/evm/keeper/statedb.go) and the precompile entry sequence (x/evm/precompile/precompile.go OnRunStart;
  x/evm/keeper/bank_extension.go SyncStateDBWithAccount).
  Addresses, storage keys, values and code hashes are naturals (0 = empty hash / zero value). Balances are wei in the StateDB
  and unibi in the store (1 unibi = 10^12 wei). Reads do not mutate the model (the lazy object cache of the code is
  observationally irrelevant because the committed store does not change under a running transaction).
-/
import NibiruModel.Prelude
namespace Nibiru.SDB

def weiPerUnibi : Int := 1000000000000

/-! ### the persisted side -/

structure StoreAcc where
  nonce    : Nat := 0
  codeHash : Nat := 0          -- 0 = empty code hash
  balance  : Int := 0          -- unibi
deriving Repr, DecidableEq, Inhabited

/-- the multistore as far as the EVM touches it, plus one foreign module value per account (`other`, e.g. a non-unibi bank
    balance) so that precompile side effects outside the EVM module are visible -/
structure Store where
  accts   : List (Nat × StoreAcc) := []
  storage : List ((Nat × Nat) × Nat) := []     -- (addr, key) ↦ value; 0 = absent
  other   : List (Nat × Int) := []
deriving Repr, DecidableEq, Inhabited

def Store.acct (st : Store) (a : Nat) : Option StoreAcc := AList.find? st.accts a
def Store.slot (st : Store) (a k : Nat) : Nat := (AList.find? st.storage (a, k)).getD 0
def Store.otherOf (st : Store) (a : Nat) : Int := (AList.find? st.other a).getD 0

/-! ### state objects and the journal -/

structure Obj where
  balance   : Int := 0           -- wei
  nonce     : Nat := 0
  codeHash  : Nat := 0
  origin    : List (Nat × Nat) := []     -- OriginStorage
  dirty     : List (Nat × Nat) := []     -- DirtyStorage
  dirtyCode : Bool := false
  suicided  : Bool := false
deriving Repr, DecidableEq, Inhabited

inductive Entry where
  | createObject (a : Nat)
  | resetObject (a : Nat) (prev : Obj)
  | suicide (a : Nat) (prev : Bool) (prevBal : Int)
  | balance (a : Nat) (prev : Int)
  | nonce (a : Nat) (prev : Nat)
  | code (a : Nat) (prevHash : Nat)
  | storage (a k prev : Nat)
  | refund (prev : Nat)
  | addLog
  | alAddr (a : Nat)
  | alSlot (a k : Nat)
  | precompile (saved : Store)
deriving Repr, DecidableEq

def Entry.dirtied : Entry → Option Nat
  | .createObject a => some a
  | .suicide a _ _ => some a
  | .balance a _ => some a
  | .nonce a _ => some a
  | .code a _ => some a
  | .storage a _ _ => some a
  | _ => none

structure S where
  txStore   : Store := {}                  -- evmTxCtx
  cache     : Option Store := none         -- cacheCtx (exists once a precompile was entered)
  objs      : List (Nat × Obj) := []       -- stateObjects
  journal   : List Entry := []
  dirties   : List (Nat × Int) := []       -- journal.dirties (count; an address stays in the map with count 0 after a flush)
  revisions : List (Nat × Nat) := []       -- (id, journal index)
  nextRev   : Nat := 0
  refund    : Nat := 0
  logs      : Nat := 0                     -- number of logs
  alAddrs   : List Nat := []
  alSlots   : List (Nat × Nat) := []
  cacheCount : Nat := 0
deriving Repr, Inhabited

def curStore (s : S) : Store := s.cache.getD s.txStore

def loadObj (st : Store) (a : Nat) : Option Obj :=
  (st.acct a).map (fun x => { balance := x.balance * weiPerUnibi, nonce := x.nonce, codeHash := x.codeHash })

/-- `getStateObject`: an object that is not cached yet is loaded from the current context (cache context if it exists) and
    cached — without a journal entry. The moment of loading matters: a precompile may have changed the bank balance before. -/
def getObj (s : S) (a : Nat) : S × Option Obj :=
  match AList.find? s.objs a with
  | some o => (s, some o)
  | none =>
    match loadObj (curStore s) a with
    | some o => ({ s with objs := AList.set s.objs a o }, some o)
    | none => (s, none)

def setObj (s : S) (a : Nat) (o : Obj) : S := { s with objs := AList.set s.objs a o }

def bumpDirty (d : List (Nat × Int)) (a : Nat) (by' : Int) : List (Nat × Int) :=
  AList.set d a ((AList.find? d a).getD 0 + by')

/-- `journal.append` -/
def append (s : S) (e : Entry) : S :=
  { s with journal := s.journal ++ [e],
           dirties := match e.dirtied with | some a => bumpDirty s.dirties a 1 | none => s.dirties }

/-- `getOrNewStateObject` (a missing account is created, journaled as `createObjectChange`) -/
def getOrNew (s : S) (a : Nat) : S × Obj :=
  match getObj s a with
  | (s1, some o) => (s1, o)
  | (s1, none) => (setObj (append s1 (.createObject a)) a {}, {})

/-- `GetCommittedState`: cached origin, else the value in the tx context's store -/
def committed (s : S) (a : Nat) (o : Obj) (k : Nat) : Nat :=
  match AList.find? o.origin k with
  | some v => v
  | none => s.txStore.slot a k

def objState (s : S) (a : Nat) (o : Obj) (k : Nat) : Nat :=
  match AList.find? o.dirty k with
  | some v => v
  | none => committed s a o k

/-- `GetCommittedState` also caches what it read in `OriginStorage` -/
def cacheOrigin (s : S) (a : Nat) (o : Obj) (k : Nat) : Obj :=
  match AList.find? o.origin k with
  | some _ => o
  | none => { o with origin := AList.set o.origin k (s.txStore.slot a k) }

/-- the object after a `GetState(k)`: the origin is cached unless the slot is dirty -/
def touchState (s : S) (a : Nat) (o : Obj) (k : Nat) : Obj :=
  match AList.find? o.dirty k with
  | some _ => o
  | none => cacheOrigin s a o k

/-! ### reads (they may cache the object) -/

structure AccView where
  exist : Bool
  empty : Bool
  suicided : Bool
  balance : Int
  nonce : Nat
  codeHash : Nat
deriving Repr, DecidableEq

def readAcc (s : S) (a : Nat) : S × AccView :=
  match getObj s a with
  | (s1, some o) => (s1, { exist := true, empty := o.nonce = 0 && o.balance = 0 && o.codeHash = 0, suicided := o.suicided,
                           balance := o.balance, nonce := o.nonce, codeHash := o.codeHash })
  | (s1, none) => (s1, { exist := false, empty := true, suicided := false, balance := 0, nonce := 0, codeHash := 0 })

def getState (s : S) (a k : Nat) : S × Nat :=
  match getObj s a with
  | (s1, some o) => (setObj s1 a (touchState s1 a o k), objState s1 a o k)
  | (s1, none) => (s1, 0)
def getCommitted (s : S) (a k : Nat) : S × Nat :=
  match getObj s a with
  | (s1, some o) => (setObj s1 a (cacheOrigin s1 a o k), committed s1 a o k)
  | (s1, none) => (s1, 0)
def getBalance (s : S) (a : Nat) : Int := (readAcc s a).2.balance

/-! ### writes -/

def setBalance (s : S) (a : Nat) (v : Int) : S :=
  let (s1, o) := getOrNew s a
  setObj (append s1 (.balance a o.balance)) a { o with balance := v }

/-- `AddBalance` / `SubBalance`: a zero amount still creates the object but journals no balance change -/
def addBalance (s : S) (a : Nat) (d : Int) : S :=
  let (s1, o) := getOrNew s a
  if d = 0 then s1 else setObj (append s1 (.balance a o.balance)) a { o with balance := o.balance + d }

def setNonce (s : S) (a : Nat) (n : Nat) : S :=
  let (s1, o) := getOrNew s a
  setObj (append s1 (.nonce a o.nonce)) a { o with nonce := n }

def setCode (s : S) (a : Nat) (h : Nat) : S :=
  let (s1, o) := getOrNew s a
  setObj (append s1 (.code a o.codeHash)) a { o with codeHash := h, dirtyCode := true }

def setState (s : S) (a k v : Nat) : S :=
  let (s1, o0) := getOrNew s a
  let prev := objState s1 a o0 k
  let o := touchState s1 a o0 k
  if prev = v then setObj s1 a o
  else setObj (append s1 (.storage a k prev)) a { o with dirty := AList.set o.dirty k v }

/-- `CreateAccount`: a fresh object replaces the previous one, keeping only its balance -/
def createAccount (s : S) (a : Nat) : S :=
  match getObj s a with
  | (s1, none) => setObj (append s1 (.createObject a)) a {}
  | (s1, some prev) => setObj (append s1 (.resetObject a prev)) a { balance := prev.balance }

def suicide (s : S) (a : Nat) : S × Bool :=
  match getObj s a with
  | (s1, none) => (s1, false)
  | (s1, some o) => (setObj (append s1 (.suicide a o.suicided o.balance)) a { o with suicided := true, balance := 0 }, true)

def addLog (s : S) : S := { (append s .addLog) with logs := s.logs + 1 }
def addRefund (s : S) (g : Nat) : S := { (append s (.refund s.refund)) with refund := s.refund + g }
def subRefund (s : S) (g : Nat) : Option S := if g > s.refund then none else some { (append s (.refund s.refund)) with refund := s.refund - g }

def addAddr (s : S) (a : Nat) : S :=
  if s.alAddrs.contains a then s else { (append s (.alAddr a)) with alAddrs := s.alAddrs ++ [a] }

def addSlot (s : S) (a k : Nat) : S :=
  let s1 := addAddr s a
  if s1.alSlots.contains (a, k) then s1 else { (append s1 (.alSlot a k)) with alSlots := s1.alSlots ++ [(a, k)] }

/-! ### snapshots -/

def snapshot (s : S) : S × Nat :=
  ({ s with revisions := s.revisions ++ [(s.nextRev, s.journal.length)], nextRev := s.nextRev + 1 }, s.nextRev)

/-- `JournalChange.Revert` -/
def revertEntry (s : S) : Entry → S
  | .createObject a => { s with objs := AList.erase s.objs a }
  | .resetObject a prev => setObj s a prev
  | .suicide a prev prevBal =>
    match getObj s a with
    | (s1, some o) => setObj s1 a { o with suicided := prev, balance := prevBal }
    | (s1, none) => s1
  | .balance a prev => match getObj s a with | (s1, some o) => setObj s1 a { o with balance := prev } | (s1, none) => s1
  | .nonce a prev => match getObj s a with | (s1, some o) => setObj s1 a { o with nonce := prev } | (s1, none) => s1
  | .code a prevHash => match getObj s a with | (s1, some o) => setObj s1 a { o with codeHash := prevHash, dirtyCode := true } | (s1, none) => s1
  | .storage a k prev => match getObj s a with | (s1, some o) => setObj s1 a { o with dirty := AList.set o.dirty k prev } | (s1, none) => s1
  | .refund prev => { s with refund := prev }
  | .addLog => { s with logs := s.logs - 1 }
  | .alAddr a => { s with alAddrs := s.alAddrs.filter (· ≠ a) }
  | .alSlot a k => { s with alSlots := s.alSlots.filter (· ≠ (a, k)) }
  | .precompile saved => { s with cache := some saved }

def unDirty (d : List (Nat × Int)) (a : Nat) : List (Nat × Int) :=
  let c := (AList.find? d a).getD 0 - 1
  if c = 0 then AList.erase d a else AList.set d a c

/-- reverting a list of entries, newest first: the part of `journal.Revert` that touches the StateDB itself -/
def revertEntries (s : S) (es : List Entry) : S := es.foldl revertEntry s

/-- `journal.Revert(statedb, snapshot)`: entries from the end down to `idx` are reverted, the dirty count of every reverted
    entry's address is decremented (no `Revert` reads or writes the counts), the journal is truncated -/
def revertTo (s : S) (idx : Nat) : S :=
  let tail := (s.journal.drop idx).reverse
  { (revertEntries s tail) with
    dirties := tail.foldl (fun d e => match e.dirtied with | some a => unDirty d a | none => d) s.dirties,
    journal := s.journal.take idx }

/-- `RevertToSnapshot`; `none` = the id is not a valid revision (the code panics) -/
def revertToSnapshot (s : S) (id : Nat) : Option S :=
  match s.revisions.find? (fun r => r.1 ≥ id) with
  | some (rid, jidx) =>
    if rid ≠ id then none
    else some { (revertTo s jidx) with revisions := s.revisions.filter (fun r => r.1 < id) }
  | none => none

/-! ### commit -/

def insertSortedNat (l : List Nat) (x : Nat) : List Nat :=
  match l with
  | [] => [x]
  | y :: ys => if x ≤ y then (if x = y then y :: ys else x :: y :: ys) else y :: insertSortedNat ys x

def sortNat (l : List Nat) : List Nat := l.foldl insertSortedNat []

def Store.setAcct (st : Store) (a : Nat) (x : StoreAcc) : Store := { st with accts := AList.set st.accts a x }
def Store.setSlot (st : Store) (a k v : Nat) : Store := { st with storage := AList.set st.storage (a, k) v }

/-- `Keeper.DeleteAccount`: balance to zero, storage wiped, account removed -/
def Store.deleteAcct (st : Store) (a : Nat) : Store :=
  match st.acct a with
  | none => st
  | some _ => { st with accts := AList.erase st.accts a, storage := st.storage.filter (fun e => e.1.1 ≠ a) }

/-- the per-object part of `commitCtx`: returns the updated store and object -/
def flushObj (st : Store) (a : Nat) (o : Obj) : Store × Obj :=
  let st1 := st.setAcct a { nonce := o.nonce, codeHash := o.codeHash, balance := Int.tdiv o.balance weiPerUnibi }
  (sortNat (o.dirty.map (·.1))).foldl (fun (acc : Store × Obj) k =>
    let v := (AList.find? acc.2.dirty k).getD 0
    if v = (AList.find? acc.2.origin k).getD 0 then acc   -- dirtyVal == OriginStorage[key] (a missing map entry reads as the zero hash)
    else (acc.1.setSlot a k v, { acc.2 with origin := AList.set acc.2.origin k v })) (st1, o)

/-- `commitCtx(ctx)`: writes every address of the dirties map, in address order; resets its count to 0 -/
def commitInto (s : S) (st : Store) : S × Store :=
  (sortNat (s.dirties.map (·.1))).foldl (fun (acc : S × Store) a =>
    match getObj acc.1 a with
    | (s1, none) => ({ s1 with dirties := AList.set s1.dirties a 0 }, acc.2)
    | (s1, some o) =>
      if o.suicided then
        ({ s1 with objs := AList.erase s1.objs a, dirties := AList.set s1.dirties a 0 }, acc.2.deleteAcct a)
      else
        let (st', o') := flushObj acc.2 a o
        ({ (setObj s1 a o') with dirties := AList.set s1.dirties a 0 }, st')) (s, st)

/-- `Commit`: write the cache context back (if any), then flush into the tx context -/
def commit (s : S) : S :=
  let base := match s.cache with | some c => c | none => s.txStore
  let (s1, st) := commitInto { s with txStore := base } base
  { s1 with txStore := st }

/-- `CommitCacheCtx` -/
def commitCache (s : S) : S :=
  match s.cache with
  | none => s
  | some c => let (s1, st) := commitInto s c; { s1 with cache := some st }

def maxCacheCount : Nat := 10

/-- precompile side effects on the cache context: a unibi move between two accounts through the bank (mirrored into the StateDB
    by `SyncStateDBWithAccount`), or a change of a foreign module value -/
inductive Effect where
  | none
  | moveUnibi (src dst : Nat) (amt : Int)
  | other (a : Nat) (delta : Int)
deriving Repr, DecidableEq

/-- `SyncStateDBWithAccount`: SetBalanceWei(addr, bank balance) -/
def syncBalance (s : S) (a : Nat) : S :=
  let bal := (((curStore s).acct a).map (·.balance)).getD 0
  setBalance s a (bal * weiPerUnibi)

def bankAdd (st : Store) (a : Nat) (d : Int) : Store :=
  let x := (st.acct a).getD {}
  st.setAcct a { x with balance := x.balance + d }

/-- `OnRunStart` (cache ctx, journal entry, count check, flush) followed by the precompile body's effect.
    result: `ok`, or `limit` (too many precompile calls: the call errors before running), or `insufficient` (bank refuses) -/
def precompile (s : S) (eff : Effect) : S × String :=
  let c0 := s.cache.getD s.txStore
  let s1 := { (append { s with cache := some c0 } (.precompile c0)) with cacheCount := s.cacheCount + 1 }
  if s1.cacheCount > maxCacheCount then (s1, "limit")
  else
    let s2 := commitCache s1
    match eff with
    | .none => (s2, "ok")
    | .other a d =>
      let c := curStore s2
      let c1 := c.setAcct a ((c.acct a).getD {})      -- the bank creates the recipient account if it does not exist
      ({ s2 with cache := some { c1 with other := AList.set c1.other a (c1.otherOf a + d) } }, "ok")
    | .moveUnibi src dst amt =>
      let c := curStore s2
      let have' := ((c.acct src).map (·.balance)).getD 0
      if amt < 0 || have' < amt then (s2, "insufficient")
      else
        let c' := bankAdd (bankAdd c src (-amt)) dst amt
        let s3 := { s2 with cache := some c' }
        (syncBalance (syncBalance s3 src) dst, "ok")

/-! ### line protocol -/

def renderStore (st : Store) (addrs keys : List Nat) : String :=
  let accts := renderItems "," (addrs.map (fun a => match st.acct a with
    | some x => s!"{a}:{x.nonce}:{x.codeHash}:{x.balance}:{st.otherOf a}"
    | none => s!"{a}:-:{st.otherOf a}"))
  let slots := renderItems "," ((addrs.flatMap (fun a => keys.map (fun k => (a, k)))).filterMap (fun p =>
    let v := st.slot p.1 p.2; if v = 0 then none else some s!"{p.1}.{p.2}={v}"))
  s!"ACC={accts} ST={slots}"

def renderAcc (v : AccView) : String :=
  s!"{boolStr v.exist}{boolStr v.empty}{boolStr v.suicided}:{v.balance}:{v.nonce}:{v.codeHash}"

def renderMisc (s : S) : String :=
  let al := renderItems "," (sortNat s.alAddrs |>.map toString)
  s!"R={s.refund} L={s.logs} AL={al}/{s.alSlots.length}"

structure Env where
  addrs : List Nat := [0, 1, 2, 3]
  keys  : List Nat := [0, 1, 2]
deriving Inhabited

def parseStoreAccts (s : String) : List (Nat × StoreAcc) × List (Nat × Int) :=
  let items := (parseItems "," s).filterMap (fun it => match it.splitOn ":" with
    | [a, n, c, b, o] => match parseNat? a, parseNat? n, parseNat? c, parseInt? b, parseInt? o with
      | some a, some n, some c, some b, some o => some (a, some ({ nonce := n, codeHash := c, balance := b } : StoreAcc), o)
      | _, _, _, _, _ => none
    | [a, "-", o] => match parseNat? a, parseInt? o with | some a, some o => some (a, none, o) | _, _ => none
    | _ => none)
  (items.filterMap (fun x => x.2.1.map (fun acc => (x.1, acc))), items.map (fun x => (x.1, x.2.2)))

def parseSlots (s : String) : List ((Nat × Nat) × Nat) :=
  (parseItems "," s).filterMap (fun it => match it.splitOn "=" with
    | [ak, v] => match ak.splitOn ".", parseNat? v with
      | [a, k], some v => match parseNat? a, parseNat? k with | some a, some k => some ((a, k), v) | _, _ => none
      | _, _ => none
    | _ => none)

def step (e : Env) (s : S) (args : List String) : S × String :=
  let n := fun (x : String) => (parseNat? x).getD 0
  let i := fun (x : String) => (parseInt? x).getD 0
  let pc := fun (r : S × String) => (r.1, r.2 ++ " " ++ renderMisc r.1 ++ " C:" ++ renderStore (curStore r.1) e.addrs e.keys)
  match args with
  | "reset" :: rest =>
    let sec := fun k => (section? rest k).getD "-"
    let (accts, other) := parseStoreAccts (sec "ACC")
    let st : Store := { accts := accts, storage := parseSlots (sec "ST"), other := other.filter (fun x => x.2 ≠ 0) }
    ({ txStore := st }, "ok")
  | ["read", a] => let (s', v) := readAcc s (n a); (s', renderAcc v)
  | ["getState", a, k] =>
    let (s1, v) := getState s (n a) (n k); let (s2, c) := getCommitted s1 (n a) (n k); (s2, s!"{v}/{c}")
  | ["addBalance", a, d] => (addBalance s (n a) (i d), "ok")
  | ["setNonce", a, v] => (setNonce s (n a) (n v), "ok")
  | ["setCode", a, h] => (setCode s (n a) (n h), "ok")
  | ["setState", a, k, v] => (setState s (n a) (n k) (n v), "ok")
  | ["createAccount", a] => (createAccount s (n a), "ok")
  | ["suicide", a] => let (s', r) := suicide s (n a); (s', boolStr r)
  | ["addLog"] => (addLog s, "ok")
  | ["addRefund", g] => (addRefund s (n g), "ok")
  | ["subRefund", g] => match subRefund s (n g) with | some s' => (s', "ok") | none => (s, "panic")
  | ["addAddr", a] => (addAddr s (n a), "ok")
  | ["addSlot", a, k] => (addSlot s (n a) (n k), "ok")
  | ["misc"] => (s, renderMisc s)
  | ["snapshot"] => let (s', id) := snapshot s; (s', s!"id={id}")
  | ["revert", id] => match revertToSnapshot s (n id) with | some s' => (s', "ok") | none => (s, "panic")
  | ["precompile", "none"] => pc (precompile s .none)
  | ["precompile", "other", a, d] => pc (precompile s (.other (n a) (i d)))
  | ["precompile", "move", a, b, amt] => pc (precompile s (.moveUnibi (n a) (n b) (i amt)))
  | ["commit"] => let s' := commit s; (s', "P:" ++ renderStore s'.txStore e.addrs e.keys)
  | _ => (s, "bad-op")

end Nibiru.SDB
