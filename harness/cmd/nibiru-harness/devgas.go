package main

import (
	"errors"
	"fmt"
	"os"
	"sort"
	"strings"

	sdkmath "cosmossdk.io/math"
	wasmkeeper "github.com/CosmWasm/wasmd/x/wasm/keeper"
	wasmtypes "github.com/CosmWasm/wasmd/x/wasm/types"
	sdk "github.com/cosmos/cosmos-sdk/types"
	sdkerrors "github.com/cosmos/cosmos-sdk/types/errors"
	authtypes "github.com/cosmos/cosmos-sdk/x/auth/types"
	banktypes "github.com/cosmos/cosmos-sdk/x/bank/types"
	govtypes "github.com/cosmos/cosmos-sdk/x/gov/types"

	"github.com/NibiruChain/collections"

	"github.com/NibiruChain/nibiru/v2/app"
	"github.com/NibiruChain/nibiru/v2/x/common/testutil/testapp"
	devgasante "github.com/NibiruChain/nibiru/v2/x/devgas/v1/ante"
	devgastypes "github.com/NibiruChain/nibiru/v2/x/devgas/v1/types"

	"verif/harness/internal/hx"
)

func init() { runners["devgas"] = runDevGas }

func mustInstantiate(nibiru *app.NibiruApp, ctx sdk.Context, wasmCode []byte, sender, admin string) string {
	store := wasmtypes.MsgStoreCodeFixture(func(m *wasmtypes.MsgStoreCode) {
		m.WASMByteCode = wasmCode
		m.Sender = sender
	})
	if _, err := nibiru.MsgServiceRouter().Handler(store)(ctx, store); err != nil {
		panic(err)
	}
	inst := wasmtypes.MsgInstantiateContractFixture(func(m *wasmtypes.MsgInstantiateContract) {
		m.Sender = sender
		m.Admin = admin
		m.Msg = []byte(`{}`)
	})
	resp, err := nibiru.MsgServiceRouter().Handler(inst)(ctx, inst)
	if err != nil {
		panic(err)
	}
	var result wasmtypes.MsgInstantiateContractResponse
	if err := nibiru.AppCodec().Unmarshal(resp.Data, &result); err != nil {
		panic(err)
	}
	return result.Address
}

func devgasErrClass(err error) string {
	switch {
	case err == nil:
		return "ok"
	case errors.Is(err, devgastypes.ErrFeeShareDisabled):
		return "disabled"
	case errors.Is(err, devgastypes.ErrFeeShareAlreadyRegistered):
		return "exists"
	case errors.Is(err, devgastypes.ErrFeeShareContractNotRegistered):
		return "notfound"
	case errors.Is(err, devgastypes.ErrFeeShareInvalidWithdrawer):
		return "badwithdrawer"
	case errors.Is(err, sdkerrors.ErrUnauthorized):
		return "unauthorized"
	case errors.Is(err, sdkerrors.ErrInvalidAddress):
		return "invalid"
	default:
		return "other:" + strings.ReplaceAll(err.Error(), " ", "_")
	}
}

func coinsStr(cs sdk.Coins) string {
	var out []string
	for _, c := range cs {
		out = append(out, fmt.Sprintf("%s=%s", c.Denom, c.Amount))
	}
	return items(out)
}

func runDevGas(r *hx.R, n int, w *hx.W, _ []string) error {
	nibiru, ctx0 := testapp.NewNibiruTestAppAndContext()
	wasmCode, err := os.ReadFile(os.Getenv("VERIF_REPO_DIR") + "/x/devgas/v1/keeper/testdata/reflect.wasm")
	if err != nil {
		wasmCode, err = os.ReadFile("/repo/x/devgas/v1/keeper/testdata/reflect.wasm")
		if err != nil {
			return err
		}
	}
	k := nibiru.DevGasKeeper
	dec := devgasante.NewDevGasPayoutDecorator(nibiru.BankKeeper, k)
	govMod := nibiru.AccountKeeper.GetModuleAddress(govtypes.ModuleName).String()
	collector := nibiru.AccountKeeper.GetModuleAddress(authtypes.FeeCollectorName)
	// a fixed population of accounts and contracts, created once
	base, _ := ctx0.CacheContext()
	var accts []string
	for i := 0; i < 4; i++ {
		b := make([]byte, 20)
		r.Read(b)
		a := sdk.AccAddress(b)
		accts = append(accts, a.String())
		_ = testapp.FundAccount(nibiru.BankKeeper, base, a, sdk.NewCoins(sdk.NewInt64Coin("unibi", 1_000_000_000), sdk.NewInt64Coin("stake", 1_000_000)))
	}
	c0 := mustInstantiate(nibiru, base, wasmCode, accts[0], "")       // no admin, creator a0
	c1 := mustInstantiate(nibiru, base, wasmCode, accts[0], accts[1]) // admin a1
	c2 := mustInstantiate(nibiru, base, wasmCode, accts[2], govMod)   // admin = gov module  => "factory"
	c3 := mustInstantiate(nibiru, base, wasmCode, accts[2], c0)       // admin is a contract => "factory" for other senders
	c4 := mustInstantiate(nibiru, base, wasmCode, accts[3], accts[3]) // admin = creator
	contracts := []string{c0, c1, c2, c3, c4}
	ghost := sdk.AccAddress([]byte("no-such-contract-xx0")).String()
	valid := append(append([]string{}, accts...), contracts...)
	valid = append(valid, ghost, govMod)
	var cItems []string
	for _, c := range contracts {
		info := nibiru.WasmKeeper.GetContractInfo(base, sdk.MustAccAddressFromBech32(c))
		cItems = append(cItems, fmt.Sprintf("%s/%s/%s", c, utok(info.Admin), utok(info.Creator)))
	}
	denoms := []string{"ibc/AAA", "unibi", "uusd"}

	for cse := 0; cse < n; cse++ {
		ctx, _ := base.CacheContext()
		params := devgastypes.DefaultParams()
		params.EnableFeeShare = !r.Chance(1, 8)
		switch r.Pick(5) {
		case 0:
			params.DeveloperShares = sdkmath.LegacyOneDec()
		case 1:
			params.DeveloperShares = sdkmath.LegacyZeroDec()
		case 2:
			params.DeveloperShares = sdkmath.LegacyNewDecWithPrec(5, 1)
		default:
			params.DeveloperShares = sdkmath.LegacyNewDecFromBigIntWithPrec(r.BigBits(59), 18)
			if params.DeveloperShares.GT(sdkmath.LegacyOneDec()) {
				params.DeveloperShares = sdkmath.LegacyNewDecWithPrec(r.Range(0, 1000), 3)
			}
		}
		switch r.Pick(5) {
		case 0:
			params.AllowedDenoms = []string{}
		case 1:
			params.AllowedDenoms = []string{"unibi"}
		case 2:
			params.AllowedDenoms = []string{"unibi", "uusd"}
		case 3:
			params.AllowedDenoms = []string{"uusd", "unibi", "unibi"} // accepted by Validate
		default:
			params.AllowedDenoms = []string{"zzz"}
		}
		if err := params.Validate(); err != nil {
			return err
		}
		k.ModuleParams.Set(ctx, params)
		for _, key := range k.DevGasStore.Iterate(ctx, collections.Range[string]{}).Keys() {
			_ = k.DevGasStore.Delete(ctx, key)
		}
		renderReg := func() string {
			var out []string
			for _, fs := range k.DevGasStore.Iterate(ctx, collections.Range[string]{}).Values() {
				out = append(out, fmt.Sprintf("%s/%s/%s", fs.ContractAddress, utok(fs.DeployerAddress), utok(fs.WithdrawerAddress)))
			}
			sort.Strings(out)
			return "REG=" + items(out)
		}
		w.Step(fmt.Sprintf("devgas reset %s %s ALLOWED=%s VALID=%s GOV=%s CONTRACTS=%s REG=-", b01(params.EnableFeeShare), params.DeveloperShares.BigInt(),
			items(params.AllowedDenoms), items(valid), govMod, items(cItems)), "ok "+renderReg())

		pickAcct := func() string {
			if r.Chance(1, 12) {
				return "notanaddress"
			}
			if r.Chance(1, 8) {
				return contracts[r.Pick(len(contracts))]
			}
			return accts[r.Pick(len(accts))]
		}
		pickContract := func() string {
			if r.Chance(1, 12) {
				return ghost
			}
			if r.Chance(1, 20) {
				return "notanaddress"
			}
			return contracts[r.Pick(len(contracts))]
		}
		run := func(vb func() error, h func(sdk.Context) error) string {
			return hx.Recover(func() string {
				if err := vb(); err != nil {
					return "invalid " + renderReg()
				}
				cctx, commit := ctx.CacheContext()
				err := h(cctx)
				if err == nil {
					commit()
				}
				return devgasErrClass(err) + " " + renderReg()
			})
		}
		steps := 6 + r.Pick(30)
		formerAdmin := map[string]string{}
		for i := 0; i < steps; i++ {
			var op, res string
			switch c := r.Pick(11); {
			case c == 10: // the admin role of a contract moves (wasm MsgUpdateAdmin / MsgClearAdmin by the current admin)
				contract := pickContract()
				caddr := sdk.AccAddress(mustAddrOrNil(contract))
				info := nibiru.WasmKeeper.GetContractInfo(ctx, caddr)
				if info == nil || info.Admin == "" {
					continue
				}
				cur, err := sdk.AccAddressFromBech32(info.Admin)
				if err != nil {
					continue
				}
				pk := wasmkeeper.NewDefaultPermissionKeeper(nibiru.WasmKeeper)
				newAdmin := pickAcct()
				if _, e := sdk.AccAddressFromBech32(newAdmin); e != nil || newAdmin == info.Admin {
					newAdmin = ""
				}
				cctx, write := ctx.CacheContext()
				if newAdmin == "" {
					err = pk.ClearContractAdmin(cctx, caddr, cur)
				} else {
					err = pk.UpdateContractAdmin(cctx, caddr, cur, sdk.MustAccAddressFromBech32(newAdmin))
				}
				if err != nil {
					continue
				}
				write()
				formerAdmin[contract] = info.Admin
				op = fmt.Sprintf("devgas setadmin %s %s", contract, utok(newAdmin))
				res = "ok " + renderReg()
			case c < 3:
				contract := pickContract()
				sender := pickAcct()
				if r.Chance(1, 2) { // aim: the legitimate deployer
					if info := nibiru.WasmKeeper.GetContractInfo(ctx, sdk.AccAddress(mustAddrOrNil(contract))); info != nil {
						sender = info.Admin
						if sender == "" {
							sender = info.Creator
						}
					}
				}
				wd := pickAcct()
				switch r.Pick(6) {
				case 0:
					wd = contract
				case 1:
					wd = ""
				}
				msg := &devgastypes.MsgRegisterFeeShare{ContractAddress: contract, DeployerAddress: sender, WithdrawerAddress: wd}
				op = fmt.Sprintf("devgas register %s %s %s", contract, sender, utok(wd))
				res = run(msg.ValidateBasic, func(c sdk.Context) error { _, err := k.RegisterFeeShare(c, msg); return err })
				if strings.HasPrefix(res, "panic") {
					res = "panic " + renderReg()
				}
			case c < 5:
				contract, sender, wd := pickContract(), pickAcct(), pickAcct()
				if r.Chance(1, 2) {
					if info := nibiru.WasmKeeper.GetContractInfo(ctx, sdk.AccAddress(mustAddrOrNil(contract))); info != nil {
						sender = info.Admin
						if sender == "" {
							sender = info.Creator
						}
					}
				}
				if fa, ok := formerAdmin[contract]; ok && r.Chance(1, 2) {
					sender = fa // a former admin tries to redirect the share
				}
				msg := &devgastypes.MsgUpdateFeeShare{ContractAddress: contract, DeployerAddress: sender, WithdrawerAddress: wd}
				op = fmt.Sprintf("devgas update %s %s %s", contract, sender, utok(wd))
				res = run(msg.ValidateBasic, func(c sdk.Context) error { _, err := k.UpdateFeeShare(c, msg); return err })
			case c < 6:
				contract, sender := pickContract(), pickAcct()
				if r.Chance(1, 2) {
					if info := nibiru.WasmKeeper.GetContractInfo(ctx, sdk.AccAddress(mustAddrOrNil(contract))); info != nil {
						sender = info.Admin
						if sender == "" {
							sender = info.Creator
						}
					}
				}
				if fa, ok := formerAdmin[contract]; ok && r.Chance(1, 2) {
					sender = fa
				}
				msg := &devgastypes.MsgCancelFeeShare{ContractAddress: contract, DeployerAddress: sender}
				op = fmt.Sprintf("devgas cancel %s %s", contract, sender)
				res = run(msg.ValidateBasic, func(c sdk.Context) error { _, err := k.CancelFeeShare(c, msg); return err })
			default: // a tx through the payout decorator
				var fee sdk.Coins
				for _, d := range denoms {
					if r.Chance(2, 3) {
						var a int64
						switch r.Pick(5) {
						case 0:
							a = r.Range(1, 3)
						case 1:
							a = r.Range(1, 1<<62)
						default:
							a = r.Range(1, 100000)
						}
						fee = fee.Add(sdk.NewInt64Coin(d, a))
					}
				}
				var msgs []sdk.Msg
				var targets []string
				for j := r.Pick(6); j > 0; j-- {
					if r.Chance(1, 5) {
						msgs = append(msgs, banktypes.NewMsgSend(sdk.MustAccAddressFromBech32(accts[0]), sdk.MustAccAddressFromBech32(accts[1]), sdk.NewCoins(sdk.NewInt64Coin("unibi", 1))))
						continue
					}
					c := pickContract()
					msgs = append(msgs, &wasmtypes.MsgExecuteContract{Sender: accts[0], Contract: c, Msg: []byte(`{}`)})
					targets = append(targets, c)
				}
				txb := nibiru.GetTxConfig().NewTxBuilder()
				if err := txb.SetMsgs(msgs...); err != nil {
					return err
				}
				txb.SetFeeAmount(fee)
				txb.SetGasLimit(1_000_000)
				// what DeductFee did before this decorator: the fee sits in the fee collector (sometimes with other txs' fees)
				pctx, _ := ctx.CacheContext()
				cur := nibiru.BankKeeper.GetAllBalances(pctx, collector)
				if !cur.IsZero() {
					_ = nibiru.BankKeeper.SendCoinsFromModuleToModule(pctx, authtypes.FeeCollectorName, "inflation", cur)
				}
				fund := fee
				if r.Chance(1, 3) {
					fund = fund.Add(sdk.NewInt64Coin("unibi", r.Range(1, 1000)))
				}
				if !fund.IsZero() {
					_ = testapp.FundModuleAccount(nibiru.BankKeeper, pctx, authtypes.FeeCollectorName, fund)
				}
				before := map[string]sdk.Coins{}
				for _, a := range valid {
					before[a] = nibiru.BankKeeper.GetAllBalances(pctx, sdk.MustAccAddressFromBech32(a))
				}
				op = fmt.Sprintf("devgas payout %s %s %s", coinsStr(fee), items(targets), coinsStr(fund))
				res = hx.Recover(func() string {
					_, err := dec.AnteHandle(pctx, txb.GetTx(), false, func(c sdk.Context, _ sdk.Tx, _ bool) (sdk.Context, error) { return c, nil })
					if err != nil {
						return "fail"
					}
					// who received what
					var to []string
					var each sdk.Coins
					recv := map[string]sdk.Coins{}
					for _, a := range valid {
						after := nibiru.BankKeeper.GetAllBalances(pctx, sdk.MustAccAddressFromBech32(a))
						if d, neg := after.SafeSub(before[a]...); !neg && !d.IsZero() {
							recv[a] = d
						}
					}
					evPaid := false
					for _, e := range pctx.EventManager().Events() {
						if strings.Contains(e.Type, "EventPayoutDevGas") {
							evPaid = true
						}
					}
					if !evPaid {
						if len(recv) != 0 {
							return "none-but-paid"
						}
						return "none"
					}
					// reconstruct recipients in message order from the registry (duplicates: a withdrawer is paid once per message)
					for _, c := range targets {
						if fs, ok := k.GetFeeShare(pctx, sdk.MustAccAddressFromBech32(c)); ok {
							if wa := fs.GetWithdrawerAddr(); wa != nil && !wa.Empty() {
								to = append(to, wa.String())
							}
						}
					}
					cnt := map[string]int64{}
					for _, a := range to {
						cnt[a]++
					}
					// each = received / multiplicity, must be the same for everybody
					first := true
					for a, got := range recv {
						per := sdk.Coins{}
						for _, c := range got {
							if cnt[a] == 0 || !c.Amount.ModRaw(cnt[a]).IsZero() {
								return "uneven:" + a
							}
							per = per.Add(sdk.NewCoin(c.Denom, c.Amount.QuoRaw(cnt[a])))
						}
						if first {
							each, first = per, false
						} else if !each.IsEqual(per) {
							return "unequal-split"
						}
					}
					if len(recv) == 0 {
						each = sdk.Coins{}
					}
					return fmt.Sprintf("paid EACH=%s TO=%s", coinsStr(each), items(to))
				})
			}
			w.Count(strings.Fields(op)[1] + ":" + strings.SplitN(res, " ", 2)[0])
			w.Step(op, res)
		}
	}
	return nil
}

func mustAddrOrNil(s string) []byte {
	a, err := sdk.AccAddressFromBech32(s)
	if err != nil {
		return nil
	}
	return a
}
