package main

import (
	"fmt"
	"go/ast"
	"sort"
	"strings"
)

// sortComparators: every sort.Slice / sort.SliceStable / slices.SortFunc call in the consensus packages whose comparator is a
// function literal: does the comparator's body mention BOTH of its parameters?  (A comparator that compares an element with
// itself leaves the slice in map-iteration order.)
func init() {
	extractors["sorts"] = func(repo string, out *leanFile, js map[string]any) error {
		var rows []string
		for _, d := range []string{"x/evm/statedb", "x/common/omap", "x/common/set", "x/oracle/keeper", "x/oracle/types", "x/evm/keeper", "x/sudo/keeper", "x/tokenfactory/keeper", "x/devgas/v1/keeper"} {
			for _, sf := range loadDir(repo, d) {
				for _, decl := range sf.file.Decls {
					fd, ok := decl.(*ast.FuncDecl)
					if !ok || fd.Body == nil {
						continue
					}
					ast.Inspect(fd.Body, func(n ast.Node) bool {
						call, ok := n.(*ast.CallExpr)
						if !ok {
							return true
						}
						fn := exprString(call.Fun)
						if fn != "sort.Slice" && fn != "sort.SliceStable" && fn != "slices.SortFunc" {
							return true
						}
						lit, ok := call.Args[len(call.Args)-1].(*ast.FuncLit)
						if !ok || len(lit.Type.Params.List) == 0 {
							return true
						}
						var params []string
						for _, p := range lit.Type.Params.List {
							for _, nm := range p.Names {
								params = append(params, nm.Name)
							}
						}
						used := map[string]bool{}
						ast.Inspect(lit.Body, func(m ast.Node) bool {
							if id, ok := m.(*ast.Ident); ok {
								used[id.Name] = true
							}
							return true
						})
						both := len(params) == 2 && used[params[0]] && used[params[1]]
						rows = append(rows, fmt.Sprintf("(%s, %v)", leanStr(filepathDir(sf.rel)+":"+funcName(fd)), both))
						return true
					})
				}
			}
		}
		sort.Strings(rows)
		out.f("def sortComparators : List (String × Bool) := [%s]\n", strings.Join(rows, ", "))
		return nil
	}
}
