package main

// funtoken: C06 — histories of FunToken operations on the real keeper / msg server / precompile, observing after every
// operation, for every mapping: ERC20 totalSupply, ERC20 balance of the EVM module account, bank supply of the denom, bank balance
// of the EVM module account — plus the tracked accounts' balances on both sides (so that the model can predict later failures).
//
// accounts: 0 = EVM module, 1..3 = externally owned accounts, 4 = proxy contract P, 5 = the fee token contract itself
// tokens:   0 = TestERC20 (standard), 1 = TestERC20TransferWithFee (10% fee to the token contract), 2.. = ERC20s deployed by
//           CreateFunToken(from coin), in creation order

import (
	"crypto/sha256"
	"fmt"
	"math/big"
	"sort"
	"strings"

	"github.com/NibiruChain/collections"
	sdk "github.com/cosmos/cosmos-sdk/types"
	authtypes "github.com/cosmos/cosmos-sdk/x/auth/types"
	bankkeeper "github.com/cosmos/cosmos-sdk/x/bank/keeper"
	banktypes "github.com/cosmos/cosmos-sdk/x/bank/types"
	gethcommon "github.com/ethereum/go-ethereum/common"
	"github.com/ethereum/go-ethereum/crypto"

	"github.com/NibiruChain/nibiru/v2/eth"
	"github.com/NibiruChain/nibiru/v2/eth/crypto/ethsecp256k1"
	"github.com/NibiruChain/nibiru/v2/x/common/testutil/testapp"
	"github.com/NibiruChain/nibiru/v2/x/evm"
	"github.com/NibiruChain/nibiru/v2/x/evm/embeds"
	"github.com/NibiruChain/nibiru/v2/x/evm/evmtest"
	"github.com/NibiruChain/nibiru/v2/x/evm/precompile"
	"github.com/NibiruChain/nibiru/v2/x/evm/statedb"

	"verif/harness/internal/easm"
	"verif/harness/internal/hx"
)

func init() { runners["funtoken"] = runFunToken }

// seqRuntime: a library that the proxy DELEGATECALLs: its calldata is a list of [address:20][len:2][payload]; each is CALLed in
// turn from the proxy's context (so msg.sender is the proxy), failures are tolerated, and a bit mask of the results is returned
// (last call = lowest bit).  Used for "a precompile call that fails, then one that succeeds, in ONE transaction".
func seqRuntime() []byte {
	a := easm.New()
	a.Label("loop")
	a.Op(easm.CALLDATASIZE).Push(0).Op(easm.MLOAD).Op(easm.LT, easm.ISZERO).JumpiTo("end")
	a.Push(0).Op(easm.MLOAD).Push(20).Op(easm.ADD, easm.CALLDATALOAD).Push(240).Op(easm.SHR)
	a.Op(easm.DUP1).Push(0x40).Op(easm.MSTORE)
	a.Push(0).Op(easm.MLOAD).Push(22).Op(easm.ADD).Push(0x100).Op(easm.CALLDATACOPY)
	a.Push(0).Push(0).Push(0x40).Op(easm.MLOAD).Push(0x100).Push(0)
	a.Push(0).Op(easm.MLOAD, easm.CALLDATALOAD).Push(96).Op(easm.SHR)
	a.Push(900000).Op(easm.CALL) // a fixed allowance per call: a failing precompile call burns all the gas it was given
	a.Push(0x20).Op(easm.MLOAD).Push(2).Op(easm.MUL, easm.ADD).Push(0x20).Op(easm.MSTORE)
	a.Push(0).Op(easm.MLOAD).Push(22).Op(easm.ADD).Push(0x40).Op(easm.MLOAD, easm.ADD).Push(0).Op(easm.MSTORE)
	a.JumpTo("loop")
	a.Label("end").Push(32).Push(0x20).Op(easm.RETURN)
	return a.Bytes()
}

func seqEntry(target gethcommon.Address, payload []byte) []byte {
	out := append([]byte{}, target.Bytes()...)
	out = append(out, byte(len(payload)>>8), byte(len(payload)))
	return append(out, payload...)
}

type ftAcct struct {
	eth   gethcommon.Address
	nibi  sdk.AccAddress
	key   *evmtest.EthPrivKeyAcc // nil for contracts / module
	nonce uint64
}

func runFunToken(r *hx.R, n int, w *hx.W, _ []string) error {
	deps := evmtest.NewTestDeps()
	k := deps.EvmKeeper
	one18 := new(big.Int).Exp(big.NewInt(10), big.NewInt(18), nil)
	fundCtx := func(ctx sdk.Context, a sdk.AccAddress, denom string, amt *big.Int) {
		if err := testapp.FundAccount(deps.App.BankKeeper, ctx, a, sdk.NewCoins(sdk.NewCoin(denom, sdk.NewIntFromBigInt(amt)))); err != nil {
			panic(err)
		}
	}
	_ = testapp.FundModuleAccount(deps.App.BankKeeper, deps.Ctx, authtypes.FeeCollectorName, sdk.NewCoins(sdk.NewCoin("unibi", sdk.NewIntFromBigInt(one18))))
	gasPrice := big.NewInt(0)
	// deterministic account keys: the FunToken registry iterates by ERC20 address, which depends on the deployer — with random keys
	// the same seed gave different histories from run to run
	keys := make([]evmtest.EthPrivKeyAcc, 3)
	for i := range keys {
		sum := sha256.Sum256([]byte(fmt.Sprintf("verif-funtoken-key-%d", i)))
		pk := &ethsecp256k1.PrivKey{Key: sum[:]}
		ecdsaKey, err := pk.ToECDSA()
		if err != nil {
			return err
		}
		addr := crypto.PubkeyToAddress(ecdsaKey.PublicKey)
		keys[i] = evmtest.EthPrivKeyAcc{EthAddr: addr, NibiruAddr: eth.EthAddrToNibiruAddr(addr), PrivKey: pk, KeyringSigner: evmtest.NewSigner(pk)}
	}
	accts := []*ftAcct{{eth: evm.EVM_MODULE_ADDRESS, nibi: eth.EthAddrToNibiruAddr(evm.EVM_MODULE_ADDRESS)}}
	for i := range keys {
		accts = append(accts, &ftAcct{eth: keys[i].EthAddr, nibi: keys[i].NibiruAddr, key: &keys[i]})
		fundCtx(deps.Ctx, keys[i].NibiruAddr, "unibi", one18)
	}
	// ethTx executes a signed tx of account i on ctx; a failing message leaves nothing behind (branch dropped, as baseapp does)
	ethTx := func(ctx sdk.Context, i int, to *gethcommon.Address, data []byte) (ret []byte, vmErr string, err error) {
		a := accts[i]
		nonce := k.GetAccNonce(ctx, a.eth)
		msg, e := signedEthTx(&deps, *a.key, nonce, to, big.NewInt(0), 3_000_000, gasPrice, data)
		if e != nil {
			return nil, "", e
		}
		cctx, write := ctx.CacheContext()
		var resp *evm.MsgEthereumTxResponse
		out := hx.Recover(func() string {
			resp, err = k.EthereumTx(sdk.WrapSDKContext(cctx), msg)
			return "done"
		})
		k.Bank.StateDB = nil
		if out == "panic" {
			return nil, "", fmt.Errorf("panic: %s", hx.LastPanic)
		}
		if err != nil {
			return nil, "", err
		}
		write()
		return resp.Ret, resp.VmError, nil
	}
	deploy := func(i int, code []byte) (gethcommon.Address, error) {
		nonce := k.GetAccNonce(deps.Ctx, accts[i].eth)
		_, vmErr, err := ethTx(deps.Ctx, i, nil, code)
		if err != nil || vmErr != "" {
			return gethcommon.Address{}, fmt.Errorf("deploy: %v %s", err, vmErr)
		}
		return crypto.CreateAddress(accts[i].eth, nonce), nil
	}
	proxy, err := deploy(1, easm.Deployer(proxyRuntime()))
	if err != nil {
		return err
	}
	stdArgs, _ := embeds.SmartContract_TestERC20.ABI.Pack("")
	tokStd, err := deploy(1, append(append([]byte{}, embeds.SmartContract_TestERC20.Bytecode...), stdArgs...))
	if err != nil {
		return err
	}
	feeArgs, _ := embeds.SmartContract_TestERC20TransferWithFee.ABI.Pack("", "fee", "FEE")
	tokFee, err := deploy(1, append(append([]byte{}, embeds.SmartContract_TestERC20TransferWithFee.Bytecode...), feeArgs...))
	if err != nil {
		return err
	}
	accts = append(accts, &ftAcct{eth: proxy, nibi: eth.EthAddrToNibiruAddr(proxy)})
	accts = append(accts, &ftAcct{eth: tokFee, nibi: eth.EthAddrToNibiruAddr(tokFee)})
	erc20abi := embeds.SmartContract_ERC20MinterWithMetadataUpdates.ABI
	// spread the standard token: account 1 keeps the rest
	for _, j := range []int{2, 3, 4} {
		in, _ := erc20abi.Pack("transfer", accts[j].eth, big.NewInt(300))
		if _, vmErr, err := ethTx(deps.Ctx, 1, &tokStd, in); err != nil || vmErr != "" {
			return fmt.Errorf("spread std: %v %s", err, vmErr)
		}
	}
	for _, j := range []int{2, 4} {
		in, _ := erc20abi.Pack("transfer", accts[j].eth, big.NewInt(200))
		if _, vmErr, err := ethTx(deps.Ctx, 1, &tokFee, in); err != nil || vmErr != "" {
			return fmt.Errorf("spread fee: %v %s", err, vmErr)
		}
	}
	coinDenoms := []string{"ulog", "ufoo"}
	for _, d := range coinDenoms {
		if d == "ufoo" { // one coin with a 6-decimals display unit: its module-deployed ERC20 has metadata an ERC20-born mapping accepts
			deps.App.BankKeeper.SetDenomMetaData(deps.Ctx, mkMetaDec(d, "foo", 6))
		} else {
			deps.App.BankKeeper.SetDenomMetaData(deps.Ctx, mkMetaPc(d))
		}
		for _, j := range []int{1, 2, 3, 4} {
			fundCtx(deps.Ctx, accts[j].nibi, d, big.NewInt(100))
		}
	}
	fundCtx(deps.Ctx, accts[1].nibi, "unibi", new(big.Int).Mul(one18, big.NewInt(1000))) // CreateFunToken fees
	base := deps.Ctx

	funtokenABI := embeds.SmartContract_FunToken.ABI
	pcAddr := precompile.PrecompileAddr_FunToken
	seqLib, err := deploy(3, easm.Deployer(seqRuntime()))
	if err != nil {
		return err
	}

	for h := 0; h < n; h++ {
		ctx, _ := base.CacheContext()
		toks := []gethcommon.Address{tokStd, tokFee}
		tokKinds := []string{"std", "fee"}
		denomOfTok := func(t int) string { return "erc20/" + toks[t].Hex() }
		denomName := func(d string) string { // canonical denom names in the protocol: coin denoms as they are, erc20 denoms as e<tok>
			for t := range toks {
				if d == denomOfTok(t) {
					return fmt.Sprintf("e%d", t)
				}
			}
			return d
		}
		realDenom := func(name string) string {
			if strings.HasPrefix(name, "e") && len(name) <= 3 {
				var t int
				if _, err := fmt.Sscanf(name, "e%d", &t); err == nil && t < len(toks) {
					return denomOfTok(t)
				}
			}
			return name
		}
		observe := func() string {
			sdb := k.NewStateDB(ctx, statedb.NewEmptyTxConfig(gethcommon.BytesToHash(ctx.HeaderHash())))
			evmObj := k.NewEVM(ctx, evmtest.MOCK_GETH_MESSAGE, k.GetEVMConfig(ctx), evm.NewNoOpTracer(), sdb)
			defer func() { k.Bank.StateDB = nil }()
			var ms, ts, bs []string
			denoms := map[string]bool{}
			for _, d := range coinDenoms {
				denoms[d] = true
			}
			for t := range toks {
				denoms[denomOfTok(t)] = true
				sup, err := k.ERC20().LoadERC20BigInt(ctx, evmObj, erc20abi, toks[t], "totalSupply")
				if err != nil {
					sup = big.NewInt(-1)
				}
				ts = append(ts, fmt.Sprintf("%d:S:%s", t, sup))
				for a := range accts {
					b, err := k.ERC20().BalanceOf(toks[t], accts[a].eth, ctx, evmObj)
					if err != nil {
						b = big.NewInt(-1)
					}
					if b.Sign() != 0 {
						ts = append(ts, fmt.Sprintf("%d:%d:%s", t, a, b))
					}
				}
			}
			for _, ft := range k.FunTokens.Iterate(ctx, collections.Range[[]byte]{}).Values() {
				t := -1
				for i := range toks {
					if toks[i] == ft.Erc20Addr.Address {
						t = i
					}
				}
				ms = append(ms, fmt.Sprintf("%d:%s:%d", t, denomName(ft.BankDenom), b2i(ft.IsMadeFromCoin)))
			}
			sort.Strings(ms)
			dl := []string{}
			for d := range denoms {
				dl = append(dl, d)
			}
			sort.Strings(dl)
			for _, d := range dl {
				bs = append(bs, fmt.Sprintf("%s:S:%s", denomName(d), deps.App.BankKeeper.GetSupply(ctx, d).Amount))
				for a := range accts {
					b := deps.App.BankKeeper.GetBalance(ctx, accts[a].nibi, d).Amount
					if !b.IsZero() {
						bs = append(bs, fmt.Sprintf("%s:%d:%s", denomName(d), a, b))
					}
				}
			}
			sort.Strings(bs)
			sort.Strings(ts)
			return fmt.Sprintf("M=%s B=%s T=%s", items(ms), items(bs), items(ts))
		}
		w.Step("ft reset "+observe()+" K="+strings.Join(tokKinds, ","), "ok "+observe())

		amt := func() int64 {
			switch r.Pick(12) {
			case 0:
				return 0
			case 1:
				return r.Range(90, 400)
			case 2:
				return 1
			default:
				return r.Range(1, 40)
			}
		}
		toForm := func(a int) (string, string) {
			if r.Chance(1, 2) {
				return accts[a].eth.Hex(), "hex"
			}
			return accts[a].nibi.String(), "bech32"
		}
		steps := 8 + r.Pick(16)
		for s := 0; s < steps; s++ {
			var op, res string
			fail := func(err error, vmErr string) string {
				if err != nil {
					if strings.HasPrefix(err.Error(), "panic:") {
						return "panic"
					}
					return "fail"
				}
				if vmErr != "" {
					return "fail"
				}
				return "ok"
			}
			c := r.Pick(20)
			// state-aware choice (two thirds of the steps): an operation on an existing mapping by a holder of the asset, with an
			// amount it can afford — so that round trips in both directions actually happen
			smart := ""
			var smartHolder, smartTok int
			var smartDenom string
			var smartMax int64
			if s >= 2 && r.Chance(2, 3) {
				type cand struct {
					kind   string
					holder int
					tok    int
					denom  string
					max    int64
				}
				var cands []cand
				sdb := k.NewStateDB(ctx, statedb.NewEmptyTxConfig(gethcommon.BytesToHash(ctx.HeaderHash())))
				evmObj := k.NewEVM(ctx, evmtest.MOCK_GETH_MESSAGE, k.GetEVMConfig(ctx), evm.NewNoOpTracer(), sdb)
				for _, ft := range k.FunTokens.Iterate(ctx, collections.Range[[]byte]{}).Values() {
					t := -1
					for i := range toks {
						if toks[i] == ft.Erc20Addr.Address {
							t = i
						}
					}
					for _, h := range []int{1, 2, 3, 4} {
						if b := deps.App.BankKeeper.GetBalance(ctx, accts[h].nibi, ft.BankDenom).Amount; b.IsPositive() {
							m := int64(1 << 40)
							if b.IsInt64() {
								m = b.Int64()
							}
							cands = append(cands, cand{"sendToEvm", h, t, ft.BankDenom, m})
							if h != 4 {
								cands = append(cands, cand{"convert", h, t, ft.BankDenom, m})
							}
						}
						if t >= 0 {
							if b, err := k.ERC20().BalanceOf(toks[t], accts[h].eth, ctx, evmObj); err == nil && b.Sign() > 0 {
								m := int64(1 << 40)
								if b.IsInt64() {
									m = b.Int64()
								}
								cands = append(cands, cand{"sendToBank", h, t, ft.BankDenom, m})
							}
						}
					}
				}
				k.Bank.StateDB = nil
				if len(cands) > 0 {
					cd := cands[r.Pick(len(cands))]
					smart, smartHolder, smartTok, smartDenom, smartMax = cd.kind, cd.holder, cd.tok, cd.denom, cd.max
					if smart == "convert" {
						c = 4
					} else {
						c = 7
					}
				}
			}
			smartAmt := func() int64 {
				hi := smartMax
				if hi > 60 {
					hi = 60
				}
				if r.Chance(1, 10) {
					return smartMax + 1
				}
				return r.Range(1, hi)
			}
			smartTo := func() int {
				if r.Chance(1, 8) {
					return r.Pick(len(accts))
				}
				return 1 + r.Pick(4)
			}
			// a history opens with the creation of mappings (most of the time), so that the rest has something to work on
			preCoin, preTok := "", -1
			if s < 4 && r.Chance(3, 4) {
				switch s {
				case 0:
					c, preCoin = 0, "ulog"
				case 1:
					c, preTok = 2, 0
				case 2:
					c, preTok = 2, 1
				default:
					c, preCoin = 0, "ufoo"
				}
			}
			switch {
			case c < 2: // create from coin
				d := coinDenoms[r.Pick(len(coinDenoms))]
				if preCoin != "" {
					d = preCoin
				}
				if preCoin == "" && r.Chance(1, 8) {
					d = denomOfTok(r.Pick(len(toks))) // a denom that belongs to an ERC20-born mapping (or to nothing)
				}
				op = fmt.Sprintf("ft createcoin %s", denomName(d))
				cctx, write := ctx.CacheContext()
				resp, err := k.CreateFunToken(sdk.WrapSDKContext(cctx), &evm.MsgCreateFunToken{FromBankDenom: d, Sender: accts[1].nibi.String()})
				k.Bank.StateDB = nil
				if err == nil {
					write()
					toks = append(toks, resp.FuntokenMapping.Erc20Addr.Address)
					tokKinds = append(tokKinds, "minter")
				}
				res = fail(err, "")
			case c < 4: // create from erc20
				t := r.Pick(len(toks))
				if preTok >= 0 {
					t = preTok
				}
				op = fmt.Sprintf("ft createerc20 %d", t)
				cctx, write := ctx.CacheContext()
				_, err := k.CreateFunToken(sdk.WrapSDKContext(cctx), &evm.MsgCreateFunToken{FromErc20: &eth.EIP55Addr{Address: toks[t]}, Sender: accts[1].nibi.String()})
				k.Bank.StateDB = nil
				if err == nil {
					write()
				}
				res = fail(err, "")
			case c < 7: // MsgConvertCoinToEvm
				from, to := 1+r.Pick(3), r.Pick(len(accts))
				dl := append([]string{}, coinDenoms...)
				for t := range toks {
					dl = append(dl, denomOfTok(t))
				}
				d := dl[r.Pick(len(dl))]
				a := amt()
				if smart == "convert" {
					from, d, a, to = smartHolder, smartDenom, smartAmt(), smartTo()
				}
				op = fmt.Sprintf("ft convert %d %s %d %d", from, denomName(d), a, to)
				cctx, write := ctx.CacheContext()
				var err error
				out := hx.Recover(func() string {
					_, err = k.ConvertCoinToEvm(sdk.WrapSDKContext(cctx), &evm.MsgConvertCoinToEvm{Sender: accts[from].nibi.String(),
						BankCoin: sdk.Coin{Denom: d, Amount: sdk.NewInt(a)}, ToEthAddr: eth.EIP55Addr{Address: accts[to].eth}})
					return "done"
				})
				k.Bank.StateDB = nil
				if out == "panic" {
					err = fmt.Errorf("panic: %s", hx.LastPanic)
				}
				if err == nil {
					write()
				}
				res = fail(err, "")
			case c < 15 && smart == "sendToEvm" && smartHolder == 4 && smartTok >= 2 && r.Chance(1, 2):
				// a round trip in ONE transaction: the proxy converts X of its coins into the ERC20 (to itself) and sends the same X
				// back to the bank, both through the precompile — every touched ERC20 slot returns to its value of before the tx
				// while the second call's entry has flushed the intermediate values
				// (coin-born mappings and an ordinary recipient only: both calls are meant to SUCCEED — a successful precompile call
				// followed by a failing one in the same transaction is the listed C04 finding, not what this case is after)
				a := smartAmt()
				to := 1 + r.Pick(3)
				toS, form := toForm(to)
				selfS, selfForm := toForm(4)
				in1, _ := funtokenABI.Pack("sendToEvm", smartDenom, big.NewInt(a), selfS)
				in2, _ := funtokenABI.Pack("sendToBank", toks[smartTok], big.NewInt(a), toS)
				op = fmt.Sprintf("ft pc2 4 sendToEvm %s %d 4 %s then sendToBank %d %d %d %s", denomName(smartDenom), a, selfForm, smartTok, a, to, form)
				seq := append(seqEntry(pcAddr, in1), seqEntry(pcAddr, in2)...)
				eoa := 1 + r.Pick(3)
				ret, vmErr, err := ethTx(ctx, eoa, &proxy, proxyCalldata(2, seqLib, big.NewInt(0), 0, maxU256, seq))
				res = fail(err, vmErr)
				if res == "ok" {
					if len(ret) < 96 || new(big.Int).SetBytes(ret[:32]).Sign() == 0 {
						res = "seq-library-failed"
					} else if new(big.Int).SetBytes(ret[64:96]).Uint64() != 3 {
						res = "fail" // one of the two calls failed (the other, if it succeeded, stands)
					}
				}
			case c < 15: // precompile call
				via := []string{"top", "proxy", "revert", "seq"}[r.Pick(4)]
				caller := 1 + r.Pick(3)
				eoa := caller
				a := amt()
				to := r.Pick(len(accts))
				method := r.Pick(3)
				if smart == "sendToBank" || smart == "sendToEvm" {
					if smartHolder == 4 {
						via = []string{"proxy", "proxy", "seq", "revert"}[r.Pick(4)]
					} else {
						via, caller, eoa = "top", smartHolder, smartHolder
					}
					a, to = smartAmt(), smartTo()
					method = 0
					if smart == "sendToEvm" {
						method = 1
					}
				}
				if via != "top" {
					caller = 4
				}
				var in []byte
				toS, form := toForm(to)
				dl := append([]string{}, coinDenoms...)
				for t := range toks {
					dl = append(dl, denomOfTok(t))
				}
				switch method {
				case 0:
					t := r.Pick(len(toks))
					if smart == "sendToBank" {
						t = smartTok
					}
					in, _ = funtokenABI.Pack("sendToBank", toks[t], big.NewInt(a), toS)
					op = fmt.Sprintf("ft pc %s %d sendToBank %d %d %d %s", via, caller, t, a, to, form)
				case 1:
					d := dl[r.Pick(len(dl))]
					if smart == "sendToEvm" {
						d = smartDenom
					}
					in, _ = funtokenABI.Pack("sendToEvm", d, big.NewInt(a), toS)
					op = fmt.Sprintf("ft pc %s %d sendToEvm %s %d %d %s", via, caller, denomName(d), a, to, form)
				default:
					d := dl[r.Pick(len(dl))]
					in, _ = funtokenABI.Pack("bankMsgSend", toS, d, big.NewInt(a))
					op = fmt.Sprintf("ft pc %s %d bankMsgSend %d %s %d %s", via, caller, to, denomName(d), a, form)
				}
				var ret []byte
				var vmErr string
				var err error
				switch via {
				case "top":
					_, vmErr, err = ethTx(ctx, eoa, &pcAddr, in)
					res = fail(err, vmErr)
				case "proxy":
					ret, vmErr, err = ethTx(ctx, eoa, &proxy, proxyCalldata(0, pcAddr, big.NewInt(0), 0, maxU256, in))
					res = fail(err, vmErr)
					if res == "ok" && (len(ret) < 32 || new(big.Int).SetBytes(ret[:32]).Sign() == 0) {
						res = "fail"
					}
				case "seq":
					// ONE transaction: the proxy first makes a precompile call that fails after decoding (sendToBank of far more
					// than it holds) and tolerates the failure, then makes the call under test: the failed call must leave nothing
					// behind, and the second call must take effect exactly as if it had been made alone
					huge := new(big.Int).Lsh(big.NewInt(1), 200)
					bad, _ := funtokenABI.Pack("sendToBank", toks[r.Pick(len(toks))], huge, accts[1].nibi.String())
					seq := append(seqEntry(pcAddr, bad), seqEntry(pcAddr, in)...)
					ret, vmErr, err = ethTx(ctx, eoa, &proxy, proxyCalldata(2, seqLib, big.NewInt(0), 0, maxU256, seq))
					res = fail(err, vmErr)
					if res == "ok" {
						// proxy returns [success][gas][returndata]; the library's return data is the result mask
						if len(ret) < 96 || new(big.Int).SetBytes(ret[:32]).Sign() == 0 {
							res = "seq-library-failed"
						} else {
							mask := new(big.Int).SetBytes(ret[64:96]).Uint64()
							switch {
							case mask&2 != 0:
								res = "first-call-did-not-fail"
							case mask&1 == 0:
								res = "fail"
							}
						}
					}
				default:
					inner := proxyCalldata(0x80, pcAddr, big.NewInt(0), 0, maxU256, in)
					ret, vmErr, err = ethTx(ctx, eoa, &proxy, proxyCalldata(0, proxy, big.NewInt(0), 0, maxU256, inner))
					res = fail(err, vmErr)
					if res == "ok" {
						res = "fail" // the inner frame reverted by construction: nothing may remain
						if len(ret) >= 32 && new(big.Int).SetBytes(ret[:32]).Sign() != 0 {
							res = "inner-frame-did-not-revert"
						}
					}
				}
			case c < 18: // direct ERC20 transfer / burn by an EOA
				t := r.Pick(len(toks))
				from, to := 1+r.Pick(3), r.Pick(len(accts))
				a := amt()
				if r.Chance(1, 4) {
					in, _ := erc20abi.Pack("burn", big.NewInt(a))
					op = fmt.Sprintf("ft burn %d %d %d", t, from, a)
					_, vmErr, err := ethTx(ctx, from, &toks[t], in)
					res = fail(err, vmErr)
				} else {
					in, _ := erc20abi.Pack("transfer", accts[to].eth, big.NewInt(a))
					op = fmt.Sprintf("ft transfer %d %d %d %d", t, from, to, a)
					_, vmErr, err := ethTx(ctx, from, &toks[t], in)
					res = fail(err, vmErr)
				}
			default: // bank MsgSend
				from, to := 1+r.Pick(3), r.Pick(len(accts))
				dl := append([]string{}, coinDenoms...)
				for t := range toks {
					dl = append(dl, denomOfTok(t))
				}
				d := dl[r.Pick(len(dl))]
				a := amt()
				op = fmt.Sprintf("ft send %d %d %s %d", from, to, denomName(d), a)
				cctx, write := ctx.CacheContext()
				msg := &banktypes.MsgSend{FromAddress: accts[from].nibi.String(), ToAddress: accts[to].nibi.String(),
					Amount: sdk.Coins{sdk.Coin{Denom: d, Amount: sdk.NewInt(a)}}}
				err := msg.ValidateBasic()
				if err == nil {
					_, err = bankkeeper.NewMsgServerImpl(deps.App.BankKeeper).Send(sdk.WrapSDKContext(cctx), msg)
				}
				if err == nil {
					write()
				}
				res = fail(err, "")
			}
			_ = realDenom
			w.Count(strings.Join(strings.Fields(op)[1:2], "") + ":" + res)
			w.Step(op, res+" "+observe())
		}
	}
	return nil
}
