package main

// replicas: C01 — N real NibiruApp instances in one process are initialised from the SAME genesis and fed the SAME blocks
// (identical encoded transactions) through BeginBlock / DeliverTx / EndBlock / Commit.  Go randomises map iteration per `range`,
// so the replicas see different iteration orders.  Per height: app hash, ResponseDeliverTx{Code, Data, GasWanted, GasUsed} and
// EndBlock validator updates must be identical on all replicas; on a mismatch the raw KV of every store is diffed to localise.

import (
	"github.com/cosmos/cosmos-sdk/x/authz"
	"bytes"
	"os"
	"encoding/hex"
	"encoding/json"
	"fmt"
	"math/big"
	"sort"
	"strings"
	"time"

	wasmtypes "github.com/CosmWasm/wasmd/x/wasm/types"
	tmdb "github.com/cometbft/cometbft-db"
	abci "github.com/cometbft/cometbft/abci/types"
	"github.com/cometbft/cometbft/libs/log"
	tmproto "github.com/cometbft/cometbft/proto/tendermint/types"
	sdkmath "cosmossdk.io/math"
	"github.com/cosmos/cosmos-sdk/crypto/keys/ed25519"
	"github.com/cosmos/cosmos-sdk/crypto/keys/secp256k1"
	cryptotypes "github.com/cosmos/cosmos-sdk/crypto/types"
	sims "github.com/cosmos/cosmos-sdk/testutil/sims"
	sdk "github.com/cosmos/cosmos-sdk/types"
	authtypes "github.com/cosmos/cosmos-sdk/x/auth/types"
	banktypes "github.com/cosmos/cosmos-sdk/x/bank/types"
	stakingkeeper "github.com/cosmos/cosmos-sdk/x/staking/keeper"
	stakingtypes "github.com/cosmos/cosmos-sdk/x/staking/types"
	gethcommon "github.com/ethereum/go-ethereum/common"
	"github.com/ethereum/go-ethereum/common/hexutil"
	"github.com/ethereum/go-ethereum/crypto"

	"github.com/NibiruChain/nibiru/v2/app"
	"github.com/NibiruChain/nibiru/v2/eth"
	"github.com/NibiruChain/nibiru/v2/x/common/asset"
	"github.com/NibiruChain/nibiru/v2/x/common/testutil/testapp"
	devgastypes "github.com/NibiruChain/nibiru/v2/x/devgas/v1/types"
	"github.com/NibiruChain/nibiru/v2/x/evm"
	"github.com/NibiruChain/nibiru/v2/x/evm/evmtest"
	"github.com/NibiruChain/nibiru/v2/x/evm/precompile"
	oracletypes "github.com/NibiruChain/nibiru/v2/x/oracle/types"
	sudotypes "github.com/NibiruChain/nibiru/v2/x/sudo/types"
	tftypes "github.com/NibiruChain/nibiru/v2/x/tokenfactory/types"

	"verif/harness/internal/easm"
	"verif/harness/internal/hx"
)

func init() { runners["replicas"] = runReplicas }

const nReplicas = 3

func runReplicas(r *hx.R, n int, w *hx.W, _ []string) error {
	// deterministic keys
	var privs []cryptotypes.PrivKey
	for i := 0; i < 4; i++ {
		privs = append(privs, secp256k1.GenPrivKeyFromSecret([]byte(fmt.Sprintf("verif-replica-%d", i))))
	}
	addr := func(i int) sdk.AccAddress { return sdk.AccAddress(privs[i].PubKey().Address()) }
	ethAccs := evmtest.NewEthPrivAccs(2)
	a0, gen := testapp.NewNibiruTestApp(app.GenesisState{})
	stateBytes, err := json.MarshalIndent(gen, "", " ")
	if err != nil {
		return err
	}
	apps := []*app.NibiruApp{a0}
	for i := 1; i < nReplicas; i++ {
		a := app.NewNibiruApp(log.NewNopLogger(), tmdb.NewMemDB(), nil, true, sims.EmptyAppOptions{})
		a.InitChain(abci.RequestInitChain{ConsensusParams: sims.DefaultConsensusParams, AppStateBytes: stateBytes})
		apps = append(apps, a)
	}
	t0 := time.Date(2024, 1, 1, 0, 0, 0, 0, time.UTC)
	wasmCode, werr := os.ReadFile(os.Getenv("VERIF_REPO_DIR") + "/x/devgas/v1/keeper/testdata/reflect.wasm")
	if werr != nil {
		wasmCode, werr = os.ReadFile("/repo/x/devgas/v1/keeper/testdata/reflect.wasm")
	}
	if werr != nil {
		wasmCode = nil
	}
	var devgasContracts []string
	devgasRound := 0
	var proposer []byte
	valPubs := []cryptotypes.PubKey{ed25519.GenPrivKeyFromSecret([]byte("verif-replica-val-1")).PubKey(), ed25519.GenPrivKeyFromSecret([]byte("verif-replica-val-2")).PubKey()}
	// identical setup on the genesis deliver-state of every replica
	for _, a := range apps {
		ctx := a.NewContext(false, tmproto.Header{Height: 1, Time: t0})
		if proposer == nil {
			proposer = testapp.FirstBlockProposer(a, ctx)
		}
		for i := 0; i < 4; i++ {
			_ = testapp.FundAccount(a.BankKeeper, ctx, addr(i), sdk.NewCoins(sdk.NewInt64Coin("unibi", 9_000_000_000_000_000), sdk.NewInt64Coin("stake", 1_000_000)))
		}
		for _, e := range ethAccs {
			_ = testapp.FundAccount(a.BankKeeper, ctx, e.NibiruAddr, sdk.NewCoins(sdk.NewInt64Coin("unibi", 9_000_000_000_000_000)))
		}
		_ = testapp.FundModuleAccount(a.BankKeeper, ctx, authtypes.FeeCollectorName, sdk.NewCoins(sdk.NewInt64Coin("unibi", 1_000_000_000_000)))
		a.SudoKeeper.Sudoers.Set(ctx, sudotypes.Sudoers{Root: addr(0).String(), Contracts: []string{}})
		// two more validators (operators 1 and 2), so that the oracle's per-validator maps have several entries
		ms := stakingkeeper.NewMsgServerImpl(a.StakingKeeper)
		for i, pk := range valPubs {
			m, err := stakingtypes.NewMsgCreateValidator(sdk.ValAddress(addr(1+i)), pk, sdk.NewInt64Coin("unibi", 2_000_000_000_000), stakingtypes.Description{Moniker: fmt.Sprint("v", i)},
				stakingtypes.NewCommissionRates(sdkmath.LegacyNewDecWithPrec(5, 2), sdkmath.LegacyNewDecWithPrec(20, 2), sdkmath.LegacyNewDecWithPrec(1, 2)), sdkmath.OneInt())
			if err != nil {
				return err
			}
			if _, err := ms.CreateValidator(sdk.WrapSDKContext(ctx), m); err != nil {
				return fmt.Errorf("create validator: %w", err)
			}
		}
		op, _ := a.OracleKeeper.Params.Get(ctx)
		op.VotePeriod = 3
		op.MinVoters = 1
		op.Whitelist = []asset.Pair{asset.MustNewPair("unibi:uusd"), asset.MustNewPair("ubtc:uusd")}
		a.OracleKeeper.Params.Set(ctx, op)
		for _, p := range op.Whitelist {
			a.OracleKeeper.WhitelistedPairs.Insert(ctx, p)
		}
		// an oracle reward pool that does not divide evenly among the winners of a vote period (1,000,003 unibi per period):
		// rewardWinners then really distributes, with truncation remainders
		if err := a.OracleKeeper.AllocateRewards(ctx, authtypes.FeeCollectorName, sdk.NewCoins(sdk.NewInt64Coin("unibi", 1_000_003_000)), 1000); err != nil {
			return fmt.Errorf("allocate oracle rewards: %w", err)
		}
		// three wasm contracts registered for dev gas (deployer: account 0), so that a tx can execute several registered contracts
		if wasmCode != nil {
			var cs []string
			for i := 0; i < 3; i++ {
				c := mustInstantiate(a, ctx, wasmCode, addr(0).String(), "")
				cs = append(cs, c)
				w := sdk.AccAddress([]byte(fmt.Sprintf("verif-devgas-w0-%d-....", i))[:20])
				if _, err := a.DevGasKeeper.RegisterFeeShare(ctx, &devgastypes.MsgRegisterFeeShare{ContractAddress: c, DeployerAddress: addr(0).String(), WithdrawerAddress: w.String()}); err != nil {
					return fmt.Errorf("register fee share: %w", err)
				}
			}
			devgasContracts = cs
		}
		a.BankKeeper.SetDenomMetaData(ctx, mkMetaPc("ulog"))
		_ = testapp.FundAccount(a.BankKeeper, ctx, addr(0), sdk.NewCoins(sdk.NewInt64Coin("ulog", 1_000_000)))
		a.EndBlock(abci.RequestEndBlock{Height: 1}) // staking validator set update of the genesis block
		a.Commit()
	}
	// probe: what a node has seen OUTSIDE the block history (here: replica 2's mempool check of an Ethereum tx with a gas price of
	// exactly zero, which is legal and charged the base fee) must not change how it prices the txs of later blocks — a restarted
	// node has seen none of it.  The replicas share one process, so a process-global parameter that moved shows on all of them at
	// once: it is compared with its value before the check.
	{
		obs := hx.Recover(func() string {
			hdr := tmproto.Header{Height: apps[0].LastBlockHeight() + 1, Time: t0}
			fee := func() string {
				c := apps[0].NewContext(true, hdr)
				return apps[0].EvmKeeper.BaseFeeMicronibiPerGas(c).String() + "/" + apps[0].EvmKeeper.BaseFeeWeiPerGas(c).String()
			}
			before := fee()
			c2 := apps[2].NewContext(true, hdr)
			to := ethAccs[1].EthAddr
			sp := ethMsgSpec{from: ethAccs[0], nonce: apps[2].EvmKeeper.GetAccNonce(c2, ethAccs[0].EthAddr), gasLimit: 21000, price: big.NewInt(0), value: big.NewInt(0), to: &to}
			m, err := sp.build()
			if err != nil {
				return "agree (probe not built)"
			}
			tx, err := wrapEthMsgs(apps[2], []*evm.MsgEthereumTx{m})
			if err != nil {
				return "agree (probe not built)"
			}
			bz, err := apps[2].GetTxConfig().TxEncoder()(tx)
			if err != nil {
				return "agree (probe not built)"
			}
			res := apps[2].CheckTx(abci.RequestCheckTx{Tx: bz, Type: abci.CheckTxType_New})
			after := fee()
			if after != before {
				return fmt.Sprintf("DIFFER feeparams(r2-after-checktx) stores=- before=%s after=%s", before, after)
			}
			return fmt.Sprintf("agree checktx=%d feeparams=%s", res.Code, before)
		})
		w.Step("replicas probe checktx-of-a-zero-price-ethtx", obs)
	}
	height := apps[0].LastBlockHeight()
	now := t0
	votePeriod := int64(3)
	type pending struct {
		salt, rates string
		period      int64
		wrap        bool
	}
	prevoted := map[int]*pending{}
	valOps := []int{1, 2}
	ethNonce := map[int]uint64{}
	var deployed []gethcommon.Address
	var progFrames [][]edFrame
	tfSeq := 0
	sudoPool := []string{}
	for i := 0; i < 8; i++ {
		b := make([]byte, 20)
		r.Read(b)
		sudoPool = append(sudoPool, sdk.AccAddress(b).String())
	}
	funtokenMade := false

	for blk := 0; blk < n; blk++ {
		now = now.Add(time.Duration(r.Range(5, 40000)) * time.Second) // sometimes crosses an epoch boundary (inflation hooks)
		header := tmproto.Header{Height: height + 1, Time: now, ProposerAddress: proposer}
		// ---- build the block's txs against replica 0's state
		ctx0 := apps[0].NewContext(true, header) // last committed state
		seqOffset := map[string]uint64{}
		sign := func(who int, gas uint64, msgs ...sdk.Msg) []byte {
			acc := apps[0].AccountKeeper.GetAccount(ctx0, addr(who))
			key := addr(who).String()
			tx, err := sims.GenSignedMockTx(r.Rand, apps[0].GetTxConfig(), msgs, sdk.NewCoins(sdk.NewInt64Coin("unibi", int64(gas))), gas, "",
				[]uint64{acc.GetAccountNumber()}, []uint64{acc.GetSequence() + seqOffset[key]}, privs[who])
			if err != nil {
				return nil
			}
			seqOffset[key]++
			bz, err := apps[0].GetTxConfig().TxEncoder()(tx)
			if err != nil {
				return nil
			}
			return bz
		}
		ethTxBytes := func(who int, to *gethcommon.Address, data []byte, value *big.Int, gas uint64) []byte {
			e := ethAccs[who]
			if _, ok := ethNonce[who]; !ok {
				ethNonce[who] = apps[0].EvmKeeper.GetAccNonce(ctx0, e.EthAddr)
			}
			sp := ethMsgSpec{from: e, nonce: ethNonce[who], gasLimit: gas, price: big.NewInt(1_000_000_000_000), value: value, to: to, data: data}
			m, err := sp.build()
			if err != nil {
				return nil
			}
			tx, err := wrapEthMsgs(apps[0], []*evm.MsgEthereumTx{m})
			if err != nil {
				return nil
			}
			bz, err := apps[0].GetTxConfig().TxEncoder()(tx)
			if err != nil {
				return nil
			}
			ethNonce[who]++
			return bz
		}
		var txs [][]byte
		var labels []string
		add := func(label string, bz []byte) {
			if bz != nil {
				txs = append(txs, bz)
				labels = append(labels, label)
			}
		}
		// oracle: reveal in the period after the prevote, then prevote again
		period := (height + 1) / votePeriod
		for _, v := range valOps {
			val := sdk.ValAddress(addr(v))
			newPrevote := func() {
				salt := fmt.Sprintf("s%d", r.Intn(1000))
				rates := fmt.Sprintf("(unibi:uusd,%d.%d)|(ubtc:uusd,%d.5)", r.Range(1, 9), r.Range(0, 9), r.Range(20000, 20005))
				if r.Chance(1, 4) {
					rates = fmt.Sprintf("(unibi:uusd,%d.0)", r.Range(1, 90))
				}
				wrap := false
				if r.Chance(1, 4) {
					// a reveal that names pairs outside the whitelist next to whitelisted ones, sent inside an authz MsgExec (ordinary gas
					// meter, not the fixed oracle meter): it is rejected, and how much gas the rejection costs is part of the tx result
					rates = fmt.Sprintf("(unibi:uusd,%d.0)|(ubtc:uusd,%d.5)|(ufoo:ubar,3.0)|(uxxx:uyyy,1.5)|(uabc:udef,7.0)", r.Range(1, 9), r.Range(20000, 20005))
					wrap = true
				}
				hash := oracletypes.GetAggregateVoteHash(salt, rates, val)
				add("oracle-prevote", sign(v, 400_000, &oracletypes.MsgAggregateExchangeRatePrevote{Hash: hash.String(), Feeder: addr(v).String(), Validator: val.String()}))
				prevoted[v] = &pending{salt, rates, period, wrap}
			}
			p, ok := prevoted[v]
			switch {
			case !ok:
				if r.Chance(3, 4) {
					newPrevote()
				}
			case p.period+1 == period:
				if r.Chance(9, 10) { // sometimes a validator misses its reveal
					vote := &oracletypes.MsgAggregateExchangeRateVote{Salt: p.salt, ExchangeRates: p.rates, Feeder: addr(v).String(), Validator: val.String()}
					if p.wrap {
						exec := authz.NewMsgExec(addr(v), []sdk.Msg{vote})
						add("oracle-vote-exec-unknown-pairs", sign(v, 600_000, &exec))
					} else {
						add("oracle-vote", sign(v, 400_000, vote))
					}
				}
				delete(prevoted, v)
				newPrevote()
			case p.period+1 < period:
				delete(prevoted, v)
				newPrevote()
			}
		}
		_ = period
		// dev gas: the deployer points every registered contract at a withdrawer that has no account yet; a later tx of the block
		// executes all of them and pays a fee — the payouts create the withdrawers' accounts (account numbers!)
		if len(devgasContracts) > 0 && r.Chance(1, 3) {
			devgasRound++
			var ups []sdk.Msg
			for i, c := range devgasContracts {
				w := sdk.AccAddress([]byte(fmt.Sprintf("verif-devgas-w%d-%d-....", devgasRound, i))[:20])
				ups = append(ups, &devgastypes.MsgUpdateFeeShare{ContractAddress: c, DeployerAddress: addr(0).String(), WithdrawerAddress: w.String()})
			}
			add("devgas-rotate", sign(0, 600_000, ups...))
			var execs []sdk.Msg
			for _, c := range devgasContracts {
				execs = append(execs, &wasmtypes.MsgExecuteContract{Sender: addr(0).String(), Contract: c, Msg: []byte(fmt.Sprintf(`{"change_owner":{"owner":"%s"}}`, addr(0).String()))})
			}
			add("devgas-exec", sign(0, 1_200_000, execs...)) // (the reflect contract obeys its owner only)
		}
		nrand := 1 + r.Pick(4)
		for i := 0; i < nrand; i++ {
			switch r.Pick(10) {
			case 9: // an Ethereum tx straight to a Nibiru precompile with calldata it cannot serve: the VM error text is part of the
				// tx result data every replica must agree on
				pcs := []gethcommon.Address{precompile.PrecompileAddr_FunToken, precompile.PrecompileAddr_Wasm, precompile.PrecompileAddr_Oracle}
				to := pcs[r.Pick(len(pcs))]
				data := make([]byte, 4+r.Pick(40))
				r.Read(data)
				add("eth-precompile-junk", ethTxBytes(r.Pick(2), &to, data, big.NewInt(0), 500_000))
			case 0, 1: // sudoers edits with several contracts
				k := 2 + r.Pick(4)
				var cs []string
				for j := 0; j < k; j++ {
					cs = append(cs, sudoPool[r.Pick(len(sudoPool))])
				}
				action := "add_contracts"
				if r.Chance(1, 4) {
					action = "remove_contracts"
				}
				add("sudo-"+action, sign(0, 400_000, &sudotypes.MsgEditSudoers{Action: action, Contracts: cs, Sender: addr(0).String()}))
				if r.Chance(1, 3) {
					// the sudo root edits the oracle whitelist: several pairs, one of them listed twice (neither ValidateBasic nor
					// Params.Validate objects); the stored repeated field must come out in one order on every replica
					wl := []asset.Pair{"unibi:uusd", "ubtc:uusd", "ueth:uusd", "uatom:uusd", "uusdc:uusd", "uusdt:uusd"}
					dup := wl[2+r.Pick(4)]
					wl = append(wl[:3], append([]asset.Pair{dup}, wl[3:]...)...)
					add("oracle-edit-whitelist-dup", sign(0, 400_000, &oracletypes.MsgEditOracleParams{Sender: addr(0).String(),
						Params: &oracletypes.OracleParamsMsg{Whitelist: wl}}))
				}
			case 2: // bank
				add("bank-send", sign(3, 300_000, banktypes.NewMsgSend(addr(3), addr(r.Pick(3)), sdk.NewCoins(sdk.NewInt64Coin("unibi", r.Range(1, 9999))))))
			case 3, 4: // eth: deploy a generated multi-frame program (transfers to fresh accounts, creates, self-destructs)
				who := r.Pick(2)
				frames := edGenFrames(r)
				if _, ok := ethNonce[who]; !ok {
					ethNonce[who] = apps[0].EvmKeeper.GetAccNonce(ctx0, ethAccs[who].EthAddr)
				}
				self := crypto.CreateAddress(ethAccs[who].EthAddr, ethNonce[who])
				sib := self
				if len(deployed) > 0 {
					sib = deployed[r.Pick(len(deployed))]
				}
				code := edCompile(frames, self, sib)
				add("eth-deploy", ethTxBytes(who, nil, easm.Deployer(code), big.NewInt(30_000_000_000_000), 3_000_000))
				deployed = append(deployed, self)
				progFrames = append(progFrames, frames)
			case 5, 6: // eth: call a deployed program
				if len(deployed) > 0 {
					i := r.Pick(len(deployed))
					to := deployed[i]
					add("eth-call", ethTxBytes(r.Pick(2), &to, []byte{byte(r.Pick(len(progFrames[i])))}, big.NewInt(0), 1_500_000))
				}
			case 7: // tokenfactory
				tfSeq++
				sub := fmt.Sprintf("d%d", tfSeq)
				add("tf-create", sign(3, 600_000, &tftypes.MsgCreateDenom{Sender: addr(3).String(), Subdenom: sub}))
			default: // funtoken
				if !funtokenMade {
					add("ft-create", sign(0, 3_000_000, &evm.MsgCreateFunToken{FromBankDenom: "ulog", Sender: addr(0).String()}))
					funtokenMade = true
				} else {
					add("ft-convert", sign(0, 3_000_000, &evm.MsgConvertCoinToEvm{Sender: addr(0).String(), BankCoin: sdk.NewInt64Coin("ulog", r.Range(1, 99)),
						ToEthAddr: eth.EIP55Addr{Address: ethAccs[r.Pick(2)].EthAddr}}))
				}
			}
		}
		// ---- execute on every replica
		type result struct {
			txs  []string
			vals string
			hash string
		}
		var results []result
		// replica 1 is a node that also answers RPC queries: between any two transactions of the block it serves read-only EVM
		// queries (eth_call, eth_estimateGas, debug_traceCall, balance) on a branch of its last committed state; the others serve
		// none.  Whether a node answered queries is an in-process incidental: all three must still commit the same state.
		queryPlan := make([]int, len(txs)+1)
		for i := range queryPlan {
			queryPlan[i] = -1
			if r.Chance(1, 2) {
				queryPlan[i] = r.Pick(4)
			}
		}
		qTarget := ethAccs[1].EthAddr
		if len(deployed) > 0 {
			qTarget = deployed[r.Pick(len(deployed))]
		}
		serve := func(a *app.NibiruApp, kind int) {
			if kind < 0 {
				return
			}
			qctx, _ := a.NewContext(true, header).CacheContext()
			_ = hx.Recover(func() string {
				from := ethAccs[0].EthAddr
				hd := hexutil.Bytes([]byte{0})
				gas := hexutil.Uint64(500_000)
				switch kind {
				case 0:
					jargs, _ := json.Marshal(evm.JsonTxArgs{From: &from, To: &qTarget, Input: &hd})
					_, _ = a.EvmKeeper.EthCall(sdk.WrapSDKContext(qctx), &evm.EthCallRequest{Args: jargs, GasCap: 500_000})
				case 1:
					jargs, _ := json.Marshal(evm.JsonTxArgs{From: &from, To: &qTarget, Input: &hd})
					_, _ = a.EvmKeeper.EstimateGas(sdk.WrapSDKContext(qctx), &evm.EthCallRequest{Args: jargs, GasCap: 500_000})
				case 2:
					targs := evm.JsonTxArgs{From: &from, To: &qTarget, Data: &hd, Gas: &gas}
					_, _ = a.EvmKeeper.TraceCall(sdk.WrapSDKContext(qctx), &evm.QueryTraceTxRequest{Msg: targs.ToMsgEthTx()})
				default:
					_, _ = a.EvmKeeper.Balance(sdk.WrapSDKContext(qctx), &evm.QueryBalanceRequest{Address: from.Hex()})
				}
				return "ok"
			})
		}
		for ai, a := range apps {
			if ai == 2 {
				// replica 2 is a node with a mempool: every transaction of the block went through its CheckTx first (and some
				// twice, as after a re-check); the check state is not the deliver state
				for _, bz := range txs {
					_ = hx.Recover(func() string { a.CheckTx(abci.RequestCheckTx{Tx: bz, Type: abci.CheckTxType_New}); return "ok" })
					if r.Chance(1, 4) {
						_ = hx.Recover(func() string { a.CheckTx(abci.RequestCheckTx{Tx: bz, Type: abci.CheckTxType_Recheck}); return "ok" })
					}
				}
			}
			a.BeginBlock(abci.RequestBeginBlock{Header: header})
			var res result
			for ti, bz := range txs {
				if ai == 1 {
					serve(a, queryPlan[ti])
				}
				rr := a.DeliverTx(abci.RequestDeliverTx{Tx: bz})
				res.txs = append(res.txs, fmt.Sprintf("%d/%x/%d/%d", rr.Code, rr.Data, rr.GasWanted, rr.GasUsed))
				if rr.Code != 0 && os.Getenv("VERIF_DEBUG_DIFF") != "" {
					fmt.Fprintf(os.Stderr, "FAILTX %s: %s\n", rr.Codespace, rr.Log)
				}
			}
			eb := a.EndBlock(abci.RequestEndBlock{Height: height + 1})
			var vu []string
			for _, u := range eb.ValidatorUpdates {
				vu = append(vu, fmt.Sprintf("%x:%d", u.PubKey.GetEd25519(), u.Power))
			}
			res.vals = strings.Join(vu, ",")
			res.hash = hex.EncodeToString(a.Commit().Data)
			results = append(results, res)
		}
		height++
		// failed eth txs do not advance the nonce the way we assumed: resync from replica 0
		for who := range ethNonce {
			ethNonce[who] = apps[0].EvmKeeper.GetAccNonce(apps[0].NewContext(true, header), ethAccs[who].EthAddr)
		}
		// ---- compare
		var diffs []string
		for i := 1; i < len(results); i++ {
			if results[i].hash != results[0].hash {
				diffs = append(diffs, fmt.Sprintf("apphash(r%d)", i))
			}
			if results[i].vals != results[0].vals {
				diffs = append(diffs, fmt.Sprintf("valupdates(r%d)", i))
			}
			for j := range results[0].txs {
				if results[i].txs[j] != results[0].txs[j] {
					diffs = append(diffs, fmt.Sprintf("tx%d:%s(r%d)", j, labels[j], i))
				}
			}
		}
		var codes []string
		okTx := 0
		for j, t := range results[0].txs {
			c := strings.SplitN(t, "/", 2)[0]
			codes = append(codes, labels[j]+"="+c)
			if c == "0" {
				okTx++
			}
			w.Count(labels[j] + ":" + map[bool]string{true: "ok", false: "fail"}[c == "0"])
		}
		obs := fmt.Sprintf("agree ok=%d", okTx)
		if len(diffs) > 0 {
			// localise: which stores / key namespaces differ between replica 0 and the others
			var where []string
			cctx0 := apps[0].NewContext(true, header)
			for i := 1; i < len(apps); i++ {
				cctx := apps[i].NewContext(true, header)
				for _, name := range allStoreNames {
					d0, d1 := dumpStore(apps[0], cctx0, name), dumpStore(apps[i], cctx, name)
					if len(d0) != len(d1) {
						where = append(where, name+":len")
						continue
					}
					for x := range d0 {
						if d0[x] != d1[x] {
							k0 := d0[x][0]
							if len(k0) > 8 {
								k0 = k0[:8]
							}
							where = append(where, name+":"+k0)
							break
						}
					}
				}
			}
			sort.Strings(where)
			where = uniqStrings(where)
			obs = fmt.Sprintf("DIFFER %s stores=%s", strings.Join(diffs, ","), items(where))
		}
		_ = bytes.Equal
		w.Step(fmt.Sprintf("replicas block h=%d txs=%s", height, items(codes)), obs)
	}
	return nil
}
