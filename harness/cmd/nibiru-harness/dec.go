package main

import (
	"fmt"
	"math/big"

	sdkmath "cosmossdk.io/math"

	"verif/harness/internal/hx"
)

func init() { runners["dec"] = runDec }

func rawDec(x *big.Int) sdkmath.LegacyDec { return sdkmath.LegacyNewDecFromBigIntWithPrec(new(big.Int).Set(x), 18) }

// boundary-biased raw decimal operand
func genRaw(r *hx.R) *big.Int {
	var x *big.Int
	e18 := new(big.Int).Exp(big.NewInt(10), big.NewInt(18), nil)
	switch r.Pick(10) {
	case 0:
		x = big.NewInt(r.Range(0, 3))
	case 1: // k + exactly one half: banker's rounding boundary
		x = new(big.Int).Mul(big.NewInt(r.Range(0, 1000)), e18)
		x.Add(x, new(big.Int).Div(e18, big.NewInt(2)))
		x.Add(x, big.NewInt(r.Range(-1, 1)))
	case 2:
		x = new(big.Int).Mul(big.NewInt(r.Range(0, 1_000_000)), e18)
	case 3:
		x = r.BigBits(r.Pick(64) + 1)
	case 4:
		x = r.BigBits(r.Pick(200) + 1)
	case 5:
		x = r.BigBits(r.Pick(315) + 1)
	case 6: // small fractions
		x = big.NewInt(r.Range(1, 1_000_000_000_000))
	case 7: // proportions in [0,1]
		x = big.NewInt(r.Range(0, 1_000_000_000_000_000_000))
	default:
		x = new(big.Int).Mul(big.NewInt(r.Range(1, 1_000_000_000)), big.NewInt(r.Range(1, 1_000_000_000)))
	}
	if r.Chance(1, 4) {
		x.Neg(x)
	}
	return x
}

func runDec(r *hx.R, n int, w *hx.W, _ []string) error {
	ops := []string{"mul", "mulTruncate", "quo", "quoTruncate", "mulInt", "quoInt", "truncateInt", "roundInt", "power"}
	for i := 0; i < n*20; i++ {
		op := ops[r.Pick(len(ops))]
		a, b := genRaw(r), genRaw(r)
		if op == "power" {
			a = new(big.Int).Mul(big.NewInt(r.Range(-30, 30)), big.NewInt(1e18))
			if r.Chance(1, 2) {
				a = big.NewInt(r.Range(-3_000_000_000_000_000_000, 3_000_000_000_000_000_000))
			}
			b = big.NewInt(r.Range(0, 40))
		}
		if op == "mulInt" || op == "quoInt" {
			b = big.NewInt(r.Range(-1_000_000_000, 1_000_000_000))
			if r.Chance(1, 3) {
				b = r.BigBits(r.Pick(120) + 1)
			}
		}
		if (op == "quo" || op == "quoTruncate" || op == "quoInt") && b.Sign() == 0 {
			b = big.NewInt(1)
		}
		res := hx.Recover(func() string {
			da, db := rawDec(a), rawDec(b)
			var out sdkmath.LegacyDec
			switch op {
			case "mul":
				out = da.Mul(db)
			case "mulTruncate":
				out = da.MulTruncate(db)
			case "quo":
				out = da.Quo(db)
			case "quoTruncate":
				out = da.QuoTruncate(db)
			case "mulInt":
				out = da.MulInt(sdkmath.NewIntFromBigInt(b))
			case "quoInt":
				out = da.QuoInt(sdkmath.NewIntFromBigInt(b))
			case "truncateInt":
				return da.TruncateInt().String()
			case "roundInt":
				return da.RoundInt().String()
			case "power":
				out = da.Power(b.Uint64())
			}
			return out.BigInt().String()
		})
		w.Count(op)
		if res == "panic" {
			w.Count("panic")
		}
		w.Step(fmt.Sprintf("dec %s %s %s", op, a.String(), b.String()), res)
	}
	return nil
}
