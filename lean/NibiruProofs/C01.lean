/-
  C01 — replicated execution is deterministic across all modules.   PARTIAL.

  Proved (for every permutation in which Go may deliver a map's entries):
    * sorting the collected keys gives one result                                  (class `sorted`)
    * folding per-key updates into a keyed store gives one store                    (class `keyed`)
    * summing gives one total                                                       (class `sum`)
    * a first-match loop over entries of which at most one matches gives one answer (class `firstMatch`)
    * `Sudoers.ToPb` persists one value when it sorts — and two different ones when it does not (counterexample)
  T1 (regenerated on every run by tools/mapranges, typed): the list of map-range sites, goroutines, wall-clock reads and
  consumers of set.Set.ToSlice in the consensus packages equals the classified expectation.
  NOT proved: that each site's loop body really has the shape of its class (tied by the replica differential run), and the
  determinism of the SDK, IAVL, wasmvm, the interpreter and the Go runtime.
-/
import NibiruModel.Determinism
import Generated.MapRanges
import Generated.Facts

namespace Nibiru.Determinism
open Nibiru List

/-! ### T1 -/
theorem fact_C01_map_range_sites : Generated.mapRangeSites = expectedSites.map (·.1) := by decide

/-- … and inside each of those loops, the writes to anything that outlives an iteration (and the early exits) are exactly the
    ones the classification was made for -/
theorem fact_C01_map_range_outer_writes : Generated.mapRangeOuterWrites = expectedOuterWrites := by decide
theorem fact_C01_to_slice_consumers : Generated.setToSliceConsumers = expectedToSliceConsumers := by decide
theorem fact_C01_goroutines_and_clock :
    Generated.goStmtSites = expectedGoStmts ∧ Generated.selectStmtSites = [] ∧ Generated.timeNowSites = expectedTimeNow := by decide
/-- the only leaking site is `set.Set.ToSlice`, and every consumer that persists its result sorts it -/
theorem fact_C01_leak_is_contained :
    (expectedSites.filter (fun s => s.2 = .leak)).map (·.1) = ["x/common/set:Set[T].ToSlice:set"] := by decide

/-- every literal comparator handed to sort.Slice in the consensus packages compares its two indices (a comparator that
    compares an element with itself leaves the slice in iteration order) -/
theorem fact_C01_sort_comparators :
    Generated.sortComparators = [("x/evm/statedb:Storage.SortedKeys", true), ("x/evm/statedb:journal.sortedDirties", true)] := by decide

/-! ### sorted -/

theorem leNat_trans (a b c : Nat) : leNat a b = true → leNat b c = true → leNat a c = true := by
  simp only [leNat, decide_eq_true_eq]; omega
theorem leNat_total (a b : Nat) : (leNat a b || leNat b a) = true := by
  simp only [leNat, Bool.or_eq_true, decide_eq_true_eq]; omega

/-- **C01 (sorted).** Whatever order the map iteration delivers the keys in, the sorted key list is the same. -/
theorem C01_sort_perm_invariant (l l' : List Nat) (h : l.Perm l') : sortKeys l = sortKeys l' := by
  unfold sortKeys
  apply Perm.eq_of_pairwise (le := fun a b => leNat a b = true)
  · intro a b _ _ h1 h2
    simp only [leNat, decide_eq_true_eq] at h1 h2
    omega
  · exact pairwise_mergeSort leNat_trans leNat_total l
  · exact pairwise_mergeSort leNat_trans leNat_total l'
  · exact ((mergeSort_perm l leNat).trans h).trans (mergeSort_perm l' leNat).symm

/-! ### keyed -/

theorem applyKeyed_comm (st : KStore) (x y : Nat × (Option Nat → Option Nat)) (h : x.1 ≠ y.1) :
    applyKeyed (applyKeyed st x) y = applyKeyed (applyKeyed st y) x := by
  funext k
  simp only [applyKeyed]
  by_cases h1 : k = y.1 <;> by_cases h2 : k = x.1
  · exact absurd (h2.symm.trans h1) h
  · subst h1; simp [Ne.symm h]
  · subst h2; simp [h]
  · simp [h1, h2]

/-- **C01 (keyed).** Entries with distinct keys, each updating only its own key (incrementing a per-validator counter, writing
    a per-address account, inserting into a Go map): the resulting store does not depend on the iteration order. -/
theorem C01_keyed_fold_perm_invariant (l l' : List (Nat × (Option Nat → Option Nat))) (h : l.Perm l')
    (nd : (l.map (·.1)).Nodup) (st : KStore) : l.foldl applyKeyed st = l'.foldl applyKeyed st := by
  induction h generalizing st with
  | nil => rfl
  | cons x _ ih =>
    simp only [map_cons, nodup_cons] at nd
    simp only [foldl_cons]
    exact ih nd.2 _
  | swap x y l =>
    simp only [map_cons, nodup_cons, mem_cons, not_or] at nd
    simp only [foldl_cons]
    rw [applyKeyed_comm st y x (fun e => nd.1.1 e)]
  | trans h1 _ ih1 ih2 =>
    have nd2 := (h1.map (·.1)).nodup_iff.mp nd
    exact (ih1 nd st).trans (ih2 nd2 st)

/-! ### sum -/

/-- **C01 (sum).** A total over the entries (reward weights, dirty counts, coin amounts) is order-independent. -/
theorem C01_sum_perm_invariant {α : Type} (f : α → Nat) (l l' : List α) (h : l.Perm l') : (l.map f).sum = (l'.map f).sum :=
  (h.map f).sum_nat

/-! ### first match -/

/-- **C01 (first match).** If at most one entry satisfies the predicate (method ids, quote denoms are unique), the loop that
    returns the first match returns the same entry in every order. -/
theorem C01_firstmatch_perm_invariant {α : Type} (p : α → Bool) (l l' : List α) (h : l.Perm l')
    (uniq : ∀ a ∈ l, ∀ b ∈ l, p a = true → p b = true → a = b) : l.find? p = l'.find? p := by
  induction h with
  | nil => rfl
  | cons x _ ih =>
    simp only [find?_cons]
    split
    · rfl
    · exact ih (fun a ha b hb => uniq a (mem_cons_of_mem _ ha) b (mem_cons_of_mem _ hb))
  | swap x y l =>
    simp only [find?_cons]
    cases hx : p x <;> cases hy : p y <;> simp
    exact (uniq y (by simp) x (by simp) hy hx)
  | trans h1 _ ih1 ih2 =>
    refine (ih1 uniq).trans (ih2 ?_)
    intro a ha b hb
    exact uniq a (h1.mem_iff.mpr ha) b (h1.mem_iff.mpr hb)

/-! ### the leaking site and its persisted consumer -/

/-- **C01 (sudoers).** With the sort in `Sudoers.ToPb`, every replica persists the same contract list. -/
theorem C01_toPb_deterministic_when_sorted (l l' : List Nat) (h : l.Perm l') : toPb true l = toPb true l' := by
  simp only [toPb, if_true]
  exact C01_sort_perm_invariant l l' h

/-- without it, two replicas that iterate the same set in different orders persist different bytes (replayed on the real app:
    the app hashes diverge at the first MsgEditSudoers that leaves two or more contracts) -/
theorem C01_counterexample_toPb_unsorted : ∃ l l' : List Nat, l.Perm l' ∧ toPb false l ≠ toPb false l' :=
  ⟨[1, 2], [2, 1], Perm.swap 2 1 [], by decide⟩

/-- the source's `ToPb` sorts (the consumer fact above) hence is in the deterministic case -/
theorem C01_toPb_current (l l' : List Nat) (h : l.Perm l') :
    toPb ((AList.find? Generated.setToSliceConsumers "x/sudo/keeper:Sudoers.ToPb").getD false) l =
    toPb ((AList.find? Generated.setToSliceConsumers "x/sudo/keeper:Sudoers.ToPb").getD false) l' := by
  have : (AList.find? Generated.setToSliceConsumers "x/sudo/keeper:Sudoers.ToPb").getD false = true := by decide
  rw [this]
  exact C01_toPb_deterministic_when_sorted l l' h

/-! non-vacuity: two different iteration orders of one set -/
example : sortKeys [1, 2] = sortKeys [2, 1] := C01_sort_perm_invariant _ _ (Perm.swap 2 1 [])

/-- whether a node served RPC queries is an in-process incidental: the query handlers build private StateDBs (`statedb.New`), only
    the state-machine entry points use the constructor that publishes in the process-wide `Keeper.Bank.StateDB` (seed C01-11 had
    the trace handler publish its StateDB, which the next EVM message of the block then adopted) -/
theorem fact_C01_query_handlers_publish_nothing :
    Generated.privateConstructorCallers =
      ["x/evm/keeper:Keeper.EstimateGasForEvmCallType", "x/evm/keeper:Keeper.EthCall", "x/evm/keeper:Keeper.NewStateDB",
       "x/evm/keeper:Keeper.TraceEthTxMsg", "x/evm/keeper:Keeper.TraceTx"] ∧
    Generated.publishingConstructorCallers.all (fun c => c.startsWith "x/evm/keeper:Keeper.") = true := by
  constructor <;> decide +kernel

end Nibiru.Determinism
