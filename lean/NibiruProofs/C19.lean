/-
  C19 — EVM log and transaction indices are unique and gap-free within a block.
  Theorems about NibiruModel.LogIndex (TxConfig, StateDB.AddLog, updateBlockBloom and its four call sites, EndBlock bloom).
-/
import NibiruModel.LogIndex
import Generated.Facts
namespace Nibiru.LogIndex

inductive Op where
  | eth (n : Nat) (o : Outcome)
  | cosmos (site : Site) (n : Nat) (ok : Bool)
deriving Repr

def apply (c : Cfg) (s : State) : Op → State
  | .eth n o => (ethTx c s n o).1
  | .cosmos site n ok => (cosmosOp c s site n ok).1

def runBlock (c : Cfg) : State → List Op → State
  | s, [] => s
  | s, op :: ops => runBlock c (apply c s op) ops

/-- the block invariant: the transient log size is the number of logs emitted so far, the logs carry the indices 0,1,2,… in
    emission order, the block bloom folds exactly the emitted logs, and the executed eth txs carry 0,1,2,… -/
structure Inv (s : State) : Prop where
  size : s.logSize = s.logs.length
  idx : s.logs.map (·.index) = List.range s.logs.length
  ids : s.logs.map (·.id) = List.range s.logs.length
  nid : s.nextId = s.logs.length
  bloom : s.bloom = s.logs.map (·.id)
  txs : s.ethTxs = List.range s.txIndex
  logTx : ∀ l ∈ s.logs, l.txIndex ≤ s.txIndex

theorem Inv_init : Inv {} := ⟨rfl, rfl, rfl, rfl, rfl, rfl, fun _ h => by cases h⟩

theorem mkLogs_length (s : State) (n : Nat) : (mkLogs s n).length = n := by simp [mkLogs]

theorem range_append (a n : Nat) : List.range a ++ (List.range n).map (fun i => a + i) = List.range (a + n) := by
  rw [List.range_add]

theorem mkLogs_index (s : State) (n : Nat) : (mkLogs s n).map (·.index) = (List.range n).map (fun i => s.logSize + i) := by
  simp [mkLogs, List.map_map, Function.comp_def]

theorem mkLogs_id (s : State) (n : Nat) : (mkLogs s n).map (·.id) = (List.range n).map (fun i => s.nextId + i) := by
  simp [mkLogs, List.map_map, Function.comp_def]

theorem updateBloom_txIndex (s : State) (a : Nat) (l : List Log) : (updateBloom s a l).txIndex = s.txIndex := by
  unfold updateBloom; split <;> rfl

theorem updateBloom_ethTxs (s : State) (a : Nat) (l : List Log) : (updateBloom s a l).ethTxs = s.ethTxs := by
  unfold updateBloom; split <;> rfl

/-- appending the logs of one operation keeps the invariant, provided the log size is advanced from the log index -/
theorem Inv_emit (s : State) (n : Nat) (h : Inv s) (tx' : Nat) (htx : s.txIndex ≤ tx') (etx : List Nat) (hetx : etx = List.range tx') :
    Inv { (updateBloom s s.logSize (mkLogs s n)) with
          logs := s.logs ++ mkLogs s n, nextId := s.nextId + (mkLogs s n).length, ethTxs := etx, txIndex := tx' } := by
  have hlen := mkLogs_length s n
  by_cases hn : n = 0
  · subst hn
    have he : mkLogs s 0 = [] := by simp [mkLogs]
    simp only [he, updateBloom, List.isEmpty_nil, if_true, List.append_nil, List.length_nil, Nat.add_zero]
    exact ⟨h.size, h.idx, h.ids, h.nid, h.bloom, hetx, fun l hl => Nat.le_trans (h.logTx l hl) htx⟩
  · have hne : (mkLogs s n).isEmpty = false := by
      cases hm : mkLogs s n with
      | nil => rw [hm] at hlen; simp at hlen; omega
      | cons _ _ => rfl
    simp only [updateBloom, hne, Bool.false_eq_true, if_false]
    refine ⟨?_, ?_, ?_, ?_, ?_, hetx, ?_⟩
    · simp [hlen, h.size]
    · simp only [List.map_append, List.length_append, hlen, h.idx, mkLogs_index, h.size]
      exact range_append _ _
    · simp only [List.map_append, List.length_append, hlen, h.ids, mkLogs_id, h.nid]
      exact range_append _ _
    · simp [hlen, h.nid]
    · simp [h.bloom]
    · intro l hl
      rcases List.mem_append.mp hl with e | e
      · exact Nat.le_trans (h.logTx l e) htx
      · simp only [mkLogs, List.mem_map, List.mem_range] at e
        obtain ⟨i, _, rfl⟩ := e
        exact htx

theorem Inv_step (s : State) (op : Op) (h : Inv s) : Inv (apply goodCfg s op) := by
  cases op with
  | eth n o =>
    simp only [apply, ethTx]
    cases o with
    | failed => exact h
    | ok =>
      simp only [if_true, goodCfg, argValue]
      exact Inv_emit s n h (s.txIndex + 1) (by omega) _ (by rw [h.txs, List.range_succ])
    | reverted =>
      have := Inv_emit s 0 h (s.txIndex + 1) (by omega) (s.ethTxs ++ [s.txIndex]) (by rw [h.txs, List.range_succ])
      have he : mkLogs s 0 = [] := by simp [mkLogs]
      simp only [he] at this
      simpa [goodCfg, argValue] using this
  | cosmos site n ok =>
    simp only [apply, cosmosOp]
    cases ok with
    | false => exact h
    | true =>
      simp only [Bool.not_true, Bool.false_eq_true, if_false, goodCfg, argValue]
      have := Inv_emit s n h s.txIndex (Nat.le_refl _) s.ethTxs h.txs
      simpa [updateBloom_txIndex, updateBloom_ethTxs] using this

theorem Inv_block (s : State) (ops : List Op) (h : Inv s) : Inv (runBlock goodCfg s ops) := by
  induction ops generalizing s with
  | nil => exact h
  | cons op ops ih => exact ih _ (Inv_step s op h)

/-- **C19, log indices.** For every block composition — successful, reverted and failing Ethereum transactions with any number of
    logs interleaved with FunToken operations of Cosmos transactions — the logs emitted in the block carry the indices
    0, 1, 2, … in emission order (distinct, consecutive, starting at 0). -/
theorem C19_indices_consecutive (ops : List Op) :
    (runBlock goodCfg {} ops).logs.map (·.index) = List.range (runBlock goodCfg {} ops).logs.length :=
  (Inv_block {} ops Inv_init).idx

/-- **C19, transaction indices.** The executed Ethereum transactions (successful or reverted; not the failing ones) carry
    0, 1, 2, … in execution order. -/
theorem C19_tx_indices_consecutive (ops : List Op) :
    (runBlock goodCfg {} ops).ethTxs = List.range (runBlock goodCfg {} ops).txIndex :=
  (Inv_block {} ops Inv_init).txs

/-- **C19, bloom.** The block bloom published at end of block folds exactly the logs emitted in the block. -/
theorem C19_bloom_is_union (ops : List Op) :
    (runBlock goodCfg {} ops).bloom = (runBlock goodCfg {} ops).logs.map (·.id) :=
  (Inv_block {} ops Inv_init).bloom

/-- **C19, a log of an Ethereum transaction carries that transaction's index**, and reverted or failing transactions
    contribute no log. -/
theorem C19_eth_log_carries_tx_index (s : State) (n : Nat) (o : Outcome) :
    (∀ l ∈ (ethTx goodCfg s n o).2, l.txIndex = s.txIndex) ∧
    (o ≠ .ok → (ethTx goodCfg s n o).2 = []) ∧
    (o ≠ .failed → (ethTx goodCfg s n o).1.ethTxs = s.ethTxs ++ [s.txIndex] ∧ (ethTx goodCfg s n o).1.txIndex = s.txIndex + 1) ∧
    (o = .failed → (ethTx goodCfg s n o).1 = s) := by
  cases o <;> simp [ethTx, mkLogs]

/-- **T1: the call sites of the code are the good configuration** (regenerated from the source on every run): every
    `updateBlockBloom` call passes the tx config's log index. -/
theorem fact_C19_all_sites_pass_log_index :
    ∀ site, (cfgOfFacts Generated.bloomSiteArgs).arg site = ArgKind.logSize := by
  intro site; cases site <;> decide

theorem fact_C19_counter_writes : Generated.blockCounterWrites =
    ["BlockLogSize@x/evm/keeper:Keeper.updateBlockBloom=logIndex + uint64(len(logs))",
     "BlockTxIndex@x/evm/keeper:Keeper.EthereumTx=uint64(txConfig.TxIndex) + 1"] := by decide

/-- the configuration the code had before the repair: FunToken conversions passed the *transaction* index and the ERC20
    deployment passed 0 -/
def oldCfg : Cfg := { arg := fun site => match site with
  | .ethTx => .logSize | .convertCoinBorn => .txIndex | .convertErc20Born => .txIndex | .deployErc20 => .zero }

/-- **Counterexample for the old call sites** (the defect repaired by the `fix:` commit; replayed on the implementation before
    the repair): an Ethereum tx with 3 logs, a ConvertCoinToEvm, an Ethereum tx with 1 log — the last log reuses index 2. -/
theorem C19_counterexample_old_sites :
    (runBlock oldCfg {} [.eth 3 .ok, .cosmos .convertCoinBorn 1 true, .eth 1 .ok]).logs.map (·.index) = [0, 1, 2, 3, 2] := by
  decide

example : (runBlock goodCfg {} [.eth 3 .ok, .cosmos .convertCoinBorn 1 true, .eth 1 .reverted, .eth 2 .failed, .cosmos .deployErc20 1 true,
    .eth 1 .ok]).logs.map (fun l => (l.index, l.txIndex)) = [(0, 0), (1, 0), (2, 0), (3, 1), (4, 2), (5, 2)] := by decide

end Nibiru.LogIndex
