/-
  SDBKeep — the history theorem of SDBTx without its "no account ends a transaction empty" condition.

  go-ethereum's `StateDB.Finalise(deleteEmptyObjects bool)` has two modes; with the EIP-161 state clearing switched off
  (`deleteEmptyObjects = false`) an account that ends a transaction with nonce 0, balance 0 and no code stays in the state as an
  empty account instead of being deleted.  That is what Nibiru's `Commit` always does (it only removes self-destructed accounts).
  `commitKeep` is `GethSpec.commit` with exactly that switch off.  Against it Nibiru's write-back agrees at every address with NO
  condition on empty accounts and no condition on their storage, and the agreement carries over any history of transactions:
  the two persisted states stay equal on the nose (`StoreEq`).  The difference between the two modes of go-ethereum itself
  (an empty account versus no account) is then a statement about go-ethereum alone; for a single transaction it is the `AcctRel` /
  `EndedEmpty` clause of `C03_transaction_commit_matches_reference_partial`.
-/
import NibiruProofs.SDBTx

namespace Nibiru.GethSpec
open Nibiru

/-- one address of the write-back with `deleteEmptyObjects = false` -/
def commitStepK (objs : List (Nat × Acc)) (b : Base) (a : Nat) : Base :=
  match AList.find? objs a with
  | none => b
  | some o =>
    let wiped : Base := if o.suicided || o.fresh then { b with storage := b.storage.filter (fun e => e.1.1 ≠ a) } else b
    if o.suicided then { wiped with accts := AList.erase wiped.accts a }
    else writeSlots a o.storage.reverse { wiped with accts := AList.set wiped.accts a (o.nonce, o.code, o.balance) }

def commitKeep (g : G) : G :=
  { base := (sortNat (g.tx.objs.map (·.1))).foldl (commitStepK g.tx.objs) g.base, tx := {}, snaps := [], next := 0 }

/-- the two modes differ only on accounts that end empty without having self-destructed -/
theorem commitStepK_eq_commitStep (objs : List (Nat × Acc)) (b : Base) (a : Nat)
    (h : ∀ o, AList.find? objs a = some o → o.suicided = false → ¬ (o.nonce = 0 ∧ o.balance = 0 ∧ o.code = 0)) :
    commitStepK objs b a = commitStep objs b a := by
  unfold commitStepK commitStep
  cases hf : AList.find? objs a with
  | none => rfl
  | some o =>
    simp only
    cases hs : o.suicided with
    | true => simp
    | false =>
      have hne := h o hf hs
      have : (o.nonce = 0 && o.balance = 0 && o.code = 0) = false := by
        cases hb : (o.nonce = 0 && o.balance = 0 && o.code = 0) with
        | false => rfl
        | true =>
          simp only [Bool.and_eq_true, decide_eq_true_eq] at hb
          exact absurd ⟨hb.1.1, hb.1.2, hb.2⟩ hne
      simp [this]

theorem commitStepK_frame (objs : List (Nat × Acc)) (a : Nat) (b : Base) (a' : Nat) (h : a' ≠ a) :
    view a (commitStepK objs b a') = view a b := by
  unfold commitStepK
  cases hf : AList.find? objs a' with
  | none => rfl
  | some o =>
    simp only
    have hw : ∀ (w : Base), w = (if (o.suicided || o.fresh) = true then { b with storage := b.storage.filter (fun e => e.1.1 ≠ a') } else b) →
        AList.find? w.accts a = AList.find? b.accts a ∧ ∀ k, w.slot a k = b.slot a k := by
      intro w hw
      subst hw
      split
      · exact ⟨rfl, fun k => slot_wiped_ne b a' a k h⟩
      · exact ⟨rfl, fun _ => rfl⟩
    obtain ⟨w1, w2⟩ := hw _ rfl
    unfold view
    split
    · simp only
      rw [AList.find?_erase_ne _ _ _ h, w1]
      congr 1
      funext k
      exact w2 k
    · rw [writeSlots_accts]
      simp only
      rw [AList.find?_set_ne _ _ _ _ h, w1]
      congr 1
      funext k
      rw [writeSlots_slot_ne _ _ _ _ _ h]
      exact w2 k

theorem commitStepK_at (objs : List (Nat × Acc)) (a : Nat) (b : Base) (o : Acc) (ho : AList.find? objs a = some o) :
    view a (commitStepK objs b a) =
      (if o.suicided then none else some (o.nonce, o.code, o.balance),
       fun k => if o.suicided then 0 else stateIn b a o k) := by
  unfold commitStepK
  rw [ho]
  simp only
  unfold view
  cases hs : o.suicided with
  | true =>
    simp only [if_true, Bool.true_or]
    rw [AList.find?_erase_self]
    congr 1
    funext k
    exact slot_wiped_self b a k
  | false =>
    simp only [Bool.false_eq_true, if_false, Bool.false_or]
    rw [writeSlots_accts]
    simp only
    rw [AList.find?_set_self]
    congr 1
    funext k
    rw [writeSlots_slot_rev]
    unfold stateIn committedIn
    cases AList.find? o.storage k with
    | some v => rfl
    | none =>
      simp only
      cases hf : o.fresh with
      | true => simp only [if_true]; exact slot_wiped_self b a k
      | false => simp only [Bool.false_eq_true, if_false]; rfl

theorem commitKeep_untouched (g : G) (a : Nat) (h : AList.find? g.tx.objs a = none) : view a (commitKeep g).base = view a g.base := by
  show view a ((sortNat (g.tx.objs.map (·.1))).foldl (commitStepK g.tx.objs) g.base) = _
  rw [sortNat_eq]
  apply SDB.foldl_notin (commitStepK g.tx.objs) (view a) a (fun acc b hb => commitStepK_frame g.tx.objs a acc b hb)
  rw [SDB.mem_sortNat]
  exact (SDB.find?_none_iff g.tx.objs a).mp h

theorem commitKeep_at (g : G) (a : Nat) (o : Acc) (h : AList.find? g.tx.objs a = some o) :
    view a (commitKeep g).base =
      (if o.suicided then none else some (o.nonce, o.code, o.balance), fun k => if o.suicided then 0 else stateOf g a o k) := by
  have hin : a ∈ g.tx.objs.map (·.1) := by
    apply Classical.byContradiction
    intro hn
    rw [(SDB.find?_none_iff g.tx.objs a).mpr hn] at h
    cases h
  obtain ⟨acc', h1, h2⟩ := SDB.foldl_at (commitStepK g.tx.objs) (view a) a (fun acc b hb => commitStepK_frame g.tx.objs a acc b hb)
    (SDB.sortNat (g.tx.objs.map (·.1))) g.base (SDB.sortNat_nodup _) (by rw [SDB.mem_sortNat]; exact hin)
  show view a ((sortNat (g.tx.objs.map (·.1))).foldl (commitStepK g.tx.objs) g.base) = _
  rw [sortNat_eq, h2, commitStepK_at g.tx.objs a acc' o h]
  have hslot : ∀ k, acc'.slot a k = g.base.slot a k := fun k => congrFun (congrArg Prod.snd h1) k
  congr 1
  funext k
  cases hd : o.suicided with
  | true => rfl
  | false =>
    simp only [Bool.false_eq_true, if_false]
    unfold stateIn committedIn stateOf committedOf
    cases AList.find? o.storage k with
    | some v => rfl
    | none => simp only; rw [hslot k]

end Nibiru.GethSpec

namespace Nibiru.SDB
open Nibiru

/-- agreement of the two persisted account records (Nibiru's bank holds whole unibi: the wei balance divided by 10^12, truncated) -/
def AcctRelK : Option StoreAcc → Option (Nat × Nat × Int) → Prop
  | some x, some y => y.1 = x.nonce ∧ y.2.1 = x.codeHash ∧ x.balance = Int.tdiv y.2.2 weiPerUnibi
  | none, none => True
  | _, _ => False

/-- **C03 (partial) — one transaction against go-ethereum with the EIP-161 deletion switched off.** Same start, same body as in
    `C03_transaction_commit_matches_reference_partial`; afterwards EVERY address holds an account on both sides or on neither, with
    the same nonce and code hash, Nibiru's balance being the reference's wei balance in whole unibi, and every slot holds the same
    value — with no side condition on the final state at all. -/
theorem C03_transaction_commit_matches_keep_reference_partial (st : Store) (b : GethSpec.Base)
    (hok : ∀ a, st.acct a = none → ∀ k, st.slot a k = 0)
    (hacc : ∀ a, AList.find? b.accts a = (st.acct a).map (fun x => (x.nonce, x.codeHash, x.balance * weiPerUnibi)))
    (hslot : ∀ a k, b.slot a k = st.slot a k) (body : List Tree) (hbody : Tree.OKL2 st body) :
    ∃ s', runTL { txStore := st } body = some s' ∧
       ∀ a, AcctRelK ((commit s').txStore.acct a)
              (AList.find? (GethSpec.commitKeep (runGTL { base := b } body)).base.accts a) ∧
            ∀ k, (commit s').txStore.slot a k = (GethSpec.commitKeep (runGTL { base := b } body)).base.slot a k := by
  have f0 : Full st { txStore := st } { base := b } := by
    refine ⟨sim_init st b hok hacc hslot, ninv_fresh st, fun e he => (by cases he), fun a _ => ?_, rfl, fun r hr => (by cases hr),
      fun r hr => (by cases hr)⟩
    have : objOf ({ txStore := st } : S) a = loadObj st a := rfl
    rw [this]; exact OptEqv.refl _ _ _
  obtain ⟨s', hrun, f, _, yg⟩ := runTL_full st body { txStore := st } { base := b } f0 hbody
  refine ⟨s', hrun, fun a => ?_⟩
  have hbase : (runGTL { base := b } body).base = b := yg.base
  have hwf : WF s' := f.ninv.inv.1
  have hc : s'.cache = none := hwf.1
  have hw0 : weiPerUnibi ≠ 0 := by unfold weiPerUnibi; decide
  have hrel := f.sim.objs a
  by_cases hD : a ∈ s'.dirties.map (·.1)
  · obtain ⟨e, he, hde⟩ := (dj_mem s' f.ninv.dj a).mp hD
    obtain ⟨o, ho⟩ := f.ninv.ec e he a hde
    obtain ⟨x, hx⟩ := f.jg e he a hde
    have hobj : objOf s' a = some o := by unfold objOf; rw [ho]
    have hgobj : GethSpec.obj? (runGTL { base := b } body) a = some x := by unfold GethSpec.obj?; rw [hx]
    rw [hobj, hgobj] at hrel
    obtain ⟨r1, r2, r3, r4, r5, _⟩ := hrel
    obtain ⟨ga, gs⟩ := view_parts (GethSpec.commitKeep_at _ a x hx)
    cases hsu : o.suicided with
    | true =>
      have hxs : x.suicided = true := by rw [← r4, hsu]
      obtain ⟨p1, p2⟩ := commit_deletes_suicided s' hc a o ho hD hsu
      rw [p1, ga, hxs]
      refine ⟨True.intro, fun k => ?_⟩
      rw [gs k, hxs]
      simp only [if_true]
      cases hy : s'.txStore.acct a with
      | some y => exact p2 k y hy
      | none =>
        rw [commit_suicided_absent s' hc a o ho hD hsu hy k, f.store]
        exact hok a (by rw [← f.store]; exact hy) k
    | false =>
      have hxs : x.suicided = false := by rw [← r4, hsu]
      obtain ⟨p1, p2⟩ := commit_persists_view s' hwf a o ho hD hsu
      rw [p1, ga, hxs]
      simp only [Bool.false_eq_true, if_false]
      refine ⟨⟨r2.symm, r3.symm, by rw [r1]⟩, fun k => ?_⟩
      rw [p2 k, gs k, hxs]
      simp only [Bool.false_eq_true, if_false]
      exact r5 k
  · obtain ⟨p1, p2⟩ := commit_frame s' hc a hD
    rw [f.store] at p1 p2
    rw [p1]
    cases hx : AList.find? (runGTL { base := b } body).tx.objs a with
    | none =>
      obtain ⟨ga, gs⟩ := view_parts (GethSpec.commitKeep_untouched _ a hx)
      rw [ga, hbase, hacc a]
      refine ⟨?_, fun k => ?_⟩
      · cases st.acct a with
        | none => exact True.intro
        | some y => exact ⟨rfl, rfl, (Int.mul_tdiv_cancel _ hw0).symm⟩
      · rw [p2 k, gs k, hbase]; exact (hslot a k).symm
    | some x =>
      have hgobj : GethSpec.obj? (runGTL { base := b } body) a = some x := by unfold GethSpec.obj?; rw [hx]
      rw [hgobj] at hrel
      have hcl := f.clean a hD
      cases hobj : objOf s' a with
      | none => rw [hobj] at hrel; exact False.elim hrel
      | some o =>
        rw [hobj] at hrel hcl
        obtain ⟨r1, r2, r3, r4, r5, _⟩ := hrel
        cases hl : loadObj st a with
        | none => rw [hl] at hcl; exact False.elim hcl
        | some L =>
          rw [hl] at hcl
          obtain ⟨q1, q2, q3, q4, _, q6⟩ := hcl
          unfold loadObj at hl
          cases hy : st.acct a with
          | none => rw [hy] at hl; cases hl
          | some y =>
            rw [hy] at hl
            simp only [Option.map] at hl
            injection hl with hl
            subst hl
            simp only at q1 q2 q3 q4 q6
            have hxs : x.suicided = false := by rw [← r4, q4]
            have hstate : ∀ k, GethSpec.stateOf (runGTL { base := b } body) a x k = st.slot a k := by
              intro k
              rw [← r5 k, objState_eq, f.store]
              have := q6 k
              simp only [AList.find?] at this
              exact this
            obtain ⟨ga, gs⟩ := view_parts (GethSpec.commitKeep_at _ a x hx)
            rw [ga, hxs]
            simp only [Bool.false_eq_true, if_false]
            refine ⟨⟨by rw [← r2, q2], by rw [← r3, q3], ?_⟩, fun k => ?_⟩
            · show y.balance = Int.tdiv x.balance weiPerUnibi
              rw [← r1, q1, Int.mul_tdiv_cancel _ hw0]
            · rw [p2 k, gs k, hxs]
              simp only [Bool.false_eq_true, if_false]
              exact (hstate k).symm

/-! ### histories -/

def persistGK (b : GethSpec.Base) (body : List Tree) : GethSpec.Base := (GethSpec.commitKeep (runGTL { base := b } body)).base

/-- the side conditions that remain: `CreateAccount` only where `evm.create` may call it; the balances the reference persists are
    whole unibi (otherwise Nibiru's bank, which truncates, starts the next transaction with less) -/
structure TxOKK (st : Store) (b : GethSpec.Base) (body : List Tree) : Prop where
  create : Tree.OKL2 st body
  whole : ∀ a y, AList.find? (persistGK b body).accts a = some y → ∃ u : Int, y.2.2 = u * weiPerUnibi

theorem storeEq_stepK (st : Store) (b : GethSpec.Base) (h : StoreEq st b) (body : List Tree) (hok : TxOKK st b body) :
    StoreEq (persistN st body) (persistGK b body) := by
  obtain ⟨s', hrun, hconcl⟩ := C03_transaction_commit_matches_keep_reference_partial st b h.ok h.acc h.slot body hok.create
  obtain ⟨s'', hrun', habs⟩ := commit_absent_no_slots st h.ok body
  have e : s'' = s' := by rw [hrun] at hrun'; exact (Option.some.inj hrun').symm
  subst e
  have hp : persistN st body = (commit s'').txStore := by unfold persistN; rw [hrun]; rfl
  have hw0 : weiPerUnibi ≠ 0 := by unfold weiPerUnibi; decide
  rw [hp]
  refine ⟨habs, fun a => ?_, fun a k => ((hconcl a).2 k).symm⟩
  have hr := (hconcl a).1
  unfold persistGK
  cases hx : (commit s'').txStore.acct a with
  | none =>
    rw [hx] at hr
    cases hy : AList.find? (GethSpec.commitKeep (runGTL { base := b } body)).base.accts a with
    | none => rfl
    | some y => rw [hy] at hr; exact False.elim hr
  | some x =>
    rw [hx] at hr
    cases hy : AList.find? (GethSpec.commitKeep (runGTL { base := b } body)).base.accts a with
    | none => rw [hy] at hr; exact False.elim hr
    | some y =>
      rw [hy] at hr
      obtain ⟨u, hu⟩ := hok.whole a y (by unfold persistGK; exact hy)
      obtain ⟨e1, e2, e3⟩ := hr
      simp only [Option.map]
      rw [← e1, ← e2, e3, hu, Int.mul_tdiv_cancel _ hw0, ← hu]

def runTxsGK (b : GethSpec.Base) : List (List Tree) → GethSpec.Base
  | [] => b
  | body :: rest => runTxsGK (persistGK b body) rest

def AllOKK (st : Store) (b : GethSpec.Base) : List (List Tree) → Prop
  | [] => True
  | body :: rest => TxOKK st b body ∧ AllOKK (persistN st body) (persistGK b body) rest

/-- **C03 (partial) — any history of transactions without precompile calls, accounts that end empty included.** Starting from equal
    persisted data, after ANY sequence of transactions Nibiru's store and the state of go-ethereum run with `deleteEmptyObjects =
    false` hold the same accounts — nonce, code hash, balance — and the same value in every storage slot.  The only side conditions
    left per transaction are `CreateAccount` where `evm.create` may call it and whole-unibi balances at write-back. -/
theorem C03_history_commits_match_keep_reference_partial (txs : List (List Tree)) (st : Store) (b : GethSpec.Base)
    (h : StoreEq st b) (hok : AllOKK st b txs) : StoreEq (runTxsN st txs) (runTxsGK b txs) := by
  induction txs generalizing st b with
  | nil => exact h
  | cons body rest ih => exact ih _ _ (storeEq_stepK st b h body hok.1) hok.2

/-- a transaction on which the two modes of go-ethereum do not differ leaves the same base in both -/
theorem persistGK_eq_persistG (b : GethSpec.Base) (body : List Tree)
    (h : ∀ a, ¬ EndedEmpty (runGTL { base := b } body) a) : persistGK b body = persistG b body := by
  unfold persistGK persistG
  show (List.foldl _ _ _ : GethSpec.Base) = (GethSpec.commit _).base
  rw [GethSpec.commit_base]
  have key : ∀ (L : List Nat) (B : GethSpec.Base),
      L.foldl (GethSpec.commitStepK (runGTL { base := b } body).tx.objs) B = L.foldl (GethSpec.commitStep (runGTL { base := b } body).tx.objs) B := by
    intro L
    induction L with
    | nil => intro _; rfl
    | cons a t ih =>
      intro B
      simp only [List.foldl_cons]
      rw [GethSpec.commitStepK_eq_commitStep _ B a (fun o ho hs ⟨hn, hb, hc⟩ => h a ⟨o, ho, hs, hn, hb, hc⟩)]
      exact ih _
  exact key _ _

/-! ### non-vacuity: a history in which an account ends a transaction empty -/

/-- account 4 receives 2 unibi … -/
def keepTx1 : List Tree := [ .w (.addBalance 4 2000000000000), .w (.setState 1 0 5) ]
/-- … and gives all of it to account 1 in the next transaction: it ends that transaction with nonce 0, balance 0 and no code … -/
def keepTx2 : List Tree := [ .w (.addBalance 4 (-2000000000000)), .w (.addBalance 1 2000000000000) ]
/-- … and is used again in a third -/
def keepTx3 : List Tree := [ .r (.acc 4), .w (.addBalance 4 1000000000000), .frame false [ .w (.setNonce 4 3) ] ]

example : EndedEmpty (runGTL { base := persistGK demoBase keepTx1 } keepTx2) 4 := by
  refine ⟨{ balance := 0 }, by decide, rfl, rfl, rfl, rfl⟩

theorem keep_allok : AllOKK demoStore demoBase [keepTx1, keepTx2, keepTx3] := by
  have whole : ∀ (l : List (Nat × (Nat × Nat × Int))) (a : Nat) (y : Nat × Nat × Int),
      (∀ p ∈ l, ∃ u : Int, p.2.2.2 = u * weiPerUnibi) → AList.find? l a = some y → ∃ u : Int, y.2.2 = u * weiPerUnibi := by
    intro l a y hl hf
    induction l with
    | nil => cases hf
    | cons p t ih =>
      obtain ⟨k', v⟩ := p
      by_cases hk : k' = a
      · simp only [AList.find?, hk, if_true] at hf
        have := hl (k', v) (List.mem_cons_self ..)
        cases hf
        exact this
      · simp only [AList.find?, hk, if_false] at hf
        exact ih (fun p hp => hl p (List.mem_cons_of_mem _ hp)) hf
  refine ⟨⟨by simp [keepTx1, Tree.OKL2, Tree.OK2], fun a y hy => ?_⟩, ⟨by simp [keepTx2, Tree.OKL2, Tree.OK2], fun a y hy => ?_⟩,
    ⟨by simp [keepTx3, Tree.OKL2, Tree.OK2], fun a y hy => ?_⟩, True.intro⟩
  · have hacc : (persistGK demoBase keepTx1).accts = [(1, 1, 7, 5000000000000), (4, 0, 0, 2000000000000)] := by decide
    rw [hacc] at hy
    refine whole _ a y (fun p hp => ?_) hy
    simp only [List.mem_cons, List.mem_nil_iff, or_false] at hp
    rcases hp with rfl | rfl
    · exact ⟨5, by simp [weiPerUnibi]⟩
    · exact ⟨2, by simp [weiPerUnibi]⟩
  · have hacc : (persistGK (persistGK demoBase keepTx1) keepTx2).accts = [(1, 1, 7, 7000000000000), (4, 0, 0, 0)] := by decide
    rw [hacc] at hy
    refine whole _ a y (fun p hp => ?_) hy
    simp only [List.mem_cons, List.mem_nil_iff, or_false] at hp
    rcases hp with rfl | rfl
    · exact ⟨7, by simp [weiPerUnibi]⟩
    · exact ⟨0, by simp [weiPerUnibi]⟩
  · have hacc : (persistGK (persistGK (persistGK demoBase keepTx1) keepTx2) keepTx3).accts =
        [(1, 1, 7, 7000000000000), (4, 0, 0, 1000000000000)] := by decide
    rw [hacc] at hy
    refine whole _ a y (fun p hp => ?_) hy
    simp only [List.mem_cons, List.mem_nil_iff, or_false] at hp
    rcases hp with rfl | rfl
    · exact ⟨7, by simp [weiPerUnibi]⟩
    · exact ⟨1, by simp [weiPerUnibi]⟩

/-- three transactions, the second of which leaves account 4 empty: the stores agree after all of them -/
example : StoreEq (runTxsN demoStore [keepTx1, keepTx2, keepTx3]) (runTxsGK demoBase [keepTx1, keepTx2, keepTx3]) :=
  C03_history_commits_match_keep_reference_partial _ _ _ ⟨demoStore_ok, demo_acc, fun _ _ => rfl⟩ keep_allok

end Nibiru.SDB
