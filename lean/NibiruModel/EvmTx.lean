/-
  NibiruModel.EvmTx — the life of an Ethereum transaction on the chain: the EVM ante chain (app/evmante: signature recovery,
  VerifyEthAcc, CanTransfer, EthGasConsume = VerifyFee + deductFee, IncrementSenderSequence — each decorator loops over all
  messages of the tx before the next one runs) and the `EthereumTx` message server (x/evm/keeper/msg_server.go: nonce
  handling around the EVM run, value transfer, RefundGas), with baseapp's rule that ante writes persist when message
  execution fails. The EVM interpreter is a parameter: each message carries its outcome kind and the gas used that the real
  execution reported. Amounts are in unibi (bank) and wei (EVM); 1 unibi = 10^12 wei.
-/
import NibiruModel.Prelude
namespace Nibiru.EvmTx

def weiPerUnibi : Int := 1000000000000
def baseFeeWei : Int := 1000000000000

def weiToNative (w : Int) : Int := Int.tdiv w weiPerUnibi
def nativeToWei (n : Int) : Int := n * weiPerUnibi

inductive Kind where
  | transfer      -- plain value transfer / successful call
  | create        -- successful contract creation
  | revert        -- executed with a VM error (state of the run reverted)
  | fail          -- the message server returned an error (e.g. gas limit below the intrinsic gas)
deriving Repr, DecidableEq

structure Msg where
  sender   : String
  nonce    : Nat
  gasLimit : Nat
  tip      : Option Int     -- dynamic-fee txs: gasTipCap; none for legacy / access-list txs
  price    : Int            -- gasPrice (legacy, access list) or gasFeeCap (dynamic fee), wei per gas
  value    : Int            -- wei
  sigOk    : Bool           -- the signature recovers a sender under this chain's id
  kind     : Kind
  gasUsed  : Nat
  to       : String
deriving Repr

/-- `EffectiveGasPriceWeiPerGas`: never below the base fee -/
def effPrice (m : Msg) : Int :=
  match m.tip with
  | none => max baseFeeWei m.price
  | some t => max baseFeeWei (min (t + baseFeeWei) m.price)

/-- `txData.Cost()` = fee cap × gas + value -/
def cost (m : Msg) : Int := m.price * m.gasLimit + m.value

/-- `VerifyFee`: WeiToNative(gasLimit × effective price) -/
def anteFee (m : Msg) : Int := weiToNative (effPrice m * m.gasLimit)

/-- `RefundGas`: WeiToNative(leftover gas × effective price) -/
def refund (m : Msg) : Int := weiToNative (effPrice m * ((m.gasLimit : Int) - m.gasUsed))

structure State where
  seq       : List (String × Nat) := []
  bal       : List (String × Int) := []      -- unibi
  collector : Int := 0
  blockGasLimit : Int := 0                    -- 0 = unlimited (consensus param -1)
  executed  : List (String × Nat) := []       -- (sender, nonce) of every message whose execution took effect
  supply    : Int := 0                        -- total unibi supply (never touched: mint/burn in SetAccBalance net to zero)
deriving Repr, Inhabited

def getSeq (s : State) (a : String) : Nat := (AList.find? s.seq a).getD 0
def getBal (s : State) (a : String) : Int := (AList.find? s.bal a).getD 0
def setSeq (s : State) (a : String) (n : Nat) : State := { s with seq := AList.set s.seq a n }
def setBal (s : State) (a : String) (v : Int) : State := { s with bal := AList.set s.bal a v }

/-! ### ante: one pass per decorator -/

/-- `MsgEthereumTx.ValidateBasic` → `TxData.Validate`: non-negative amounts, tip cap ≤ fee cap -/
def validBasic (m : Msg) : Bool :=
  decide (0 ≤ m.value) && decide (0 ≤ m.price) &&
  (match m.tip with | none => true | some t => decide (0 ≤ t) && decide (t ≤ m.price))

def passSig (ms : List Msg) : Bool := ms.all (fun m => validBasic m && m.sigOk)

/-- `AnteDecVerifyEthAcc`: balance (in wei) covers the full cost of each message, checked against the state before any deduction -/
def passVerifyAcc (s : State) (ms : List Msg) : Bool :=
  ms.all (fun m => decide (0 ≤ cost m) && decide (cost m ≤ nativeToWei (getBal s m.sender)))

/-- `CanTransferDecorator` -/
def passCanTransfer (s : State) (ms : List Msg) : Bool :=
  ms.all (fun m => decide (m.value ≤ 0) || decide (m.value ≤ nativeToWei (getBal s m.sender)))

/-- `AnteDecEthGasConsume`: fees deducted message by message -/
def passGas : State → List Msg → Option State
  | s, [] => some s
  | s, m :: ms =>
    let f := anteFee m
    if f = 0 then passGas s ms
    else if getBal s m.sender < f then none
    else passGas { (setBal s m.sender (getBal s m.sender - f)) with collector := s.collector + f } ms

def gasWanted (ms : List Msg) : Int := sumInts (ms.map (fun m => (m.gasLimit : Int)))

/-- `AnteDecEthIncrementSenderSequence`: nonce must equal the sequence, which is then incremented -/
def passSeq : State → List Msg → Option State
  | s, [] => some s
  | s, m :: ms => if m.nonce = getSeq s m.sender then passSeq (setSeq s m.sender (m.nonce + 1)) ms else none

def ante (s : State) (ms : List Msg) : Option State :=
  if !passSig ms then none
  else if !passVerifyAcc s ms then none
  else if !passCanTransfer s ms then none
  else match passGas s ms with
    | none => none
    | some s1 =>
      if s.blockGasLimit > 0 && decide (gasWanted ms > s.blockGasLimit) then none
      else passSeq s1 ms

/-! ### message execution -/

/-- `CanTransfer` of the EVM at run time: the sender's balance (in wei) covers the value; otherwise the run ends with a VM error
    (ErrInsufficientBalance) and nothing moves -/
def canTransfer (s : State) (m : Msg) : Bool := decide (m.value ≤ getBal s m.sender * 10 ^ 12)

/-- value moves only when the run succeeds; the value is truncated to whole unibi -/
def moveValue (s : State) (m : Msg) : State :=
  if (m.kind = .transfer || m.kind = .create) && decide (weiToNative m.value > 0) && canTransfer s m then
    let s1 := setBal s m.sender (getBal s m.sender - weiToNative m.value)
    setBal s1 m.to (getBal s1 m.to + weiToNative m.value)
  else s

/-- `RefundGas` from the fee collector, and the record that the message took effect -/
def payRefund (s : State) (m : Msg) : State :=
  { (setBal s m.sender (getBal s m.sender + refund m)) with
    collector := s.collector - refund m, executed := s.executed ++ [(m.sender, m.nonce)] }

/-- one `EthereumTx` message on the state left by the ante handler / the previous messages; `none` = the message returns an
    error. ApplyEvmMsg: SetNonce(nonce) … SetNonce(nonce+1), committed with the run. -/
def execMsg (s : State) (m : Msg) : Option State :=
  if m.kind = .fail then none
  else if refund m < 0 then none
  else if (moveValue (setSeq s m.sender (m.nonce + 1)) m).collector < refund m then none
  else some (payRefund (moveValue (setSeq s m.sender (m.nonce + 1)) m) m)

def execMsgs : State → List Msg → Option State
  | s, [] => some s
  | s, m :: ms => match execMsg s m with
    | none => none
    | some s' => execMsgs s' ms

inductive Res where | rejected | execFailed | ok
deriving Repr, DecidableEq

/-- DeliverTx of a tx made of Ethereum messages -/
def deliver (s : State) (ms : List Msg) : State × Res :=
  match ante s ms with
  | none => (s, .rejected)
  | some s1 =>
    match execMsgs s1 ms with
    | none => (s1, .execFailed)           -- ante effects (fees, sequences) persist
    | some s2 => (s2, .ok)

/-- where the contract creations of a transaction put their code: `(signer, n)` stands for go-ethereum's
    `CreateAddress(signer, n)`. `ApplyEvmMsg` pins the StateDB nonce of the sender to the MESSAGE's nonce right before the
    interpreter runs (`SetNonce(msg.From(), msg.Nonce())` — fact `applyEvmMsgNonceAndVm`), and `evm.Create` derives the new address from
    the caller's StateDB nonce: whatever the ante handler did to the account sequence for the later messages of the same transaction,
    a creation lands at the address of its own nonce. -/
def deployments (ms : List Msg) : List (String × Nat) :=
  (ms.filter (fun m => m.kind = .create)).map (fun m => (m.sender, m.nonce))

/-! ### line protocol -/

structure View where
  accts : List String := []
deriving Inhabited

def render (v : View) (s : State) : String :=
  let a := renderItems "," (v.accts.map (fun x => s!"{x}:{getSeq s x}:{getBal s x}"))
  s!"A={a} C={s.collector} S={s.supply}"

def parseKind : String → Option Kind
  | "transfer" => some .transfer | "create" => some .create | "revert" => some .revert | "fail" => some .fail | _ => none

/-- a message: `sender/nonce/gasLimit/tip or "-"/price/value/sigOk/kind/gasUsed/to` (slash-separated) -/
def parseMsg (s : String) : Option Msg :=
  match s.splitOn "/" with
  | [snd, n, l, tip, p, v, sg, k, u, to] => do
    let n ← parseNat? n; let l ← parseNat? l; let p ← parseInt? p; let v ← parseInt? v; let k ← parseKind k; let u ← parseNat? u
    let tip ← (if tip = "-" then some none else (parseInt? tip).map some)
    pure { sender := snd, nonce := n, gasLimit := l, tip := tip, price := p, value := v, sigOk := sg = "1", kind := k, gasUsed := u, to := to }
  | _ => none

def step (st : State × View) (args : List String) : (State × View) × String :=
  let (s, v) := st
  match args with
  | "reset" :: bgl :: collector :: supply :: rest =>
    match parseInt? bgl, parseInt? collector, parseInt? supply with
    | some bgl, some c, some sup =>
      let sec := fun k => (section? rest k).getD "-"
      let accts := (parseItems "," (sec "ACCTS")).filterMap (fun it => match it.splitOn ":" with
        | [a, q, b] => match parseNat? q, parseInt? b with | some q, some b => some (a, q, b) | _, _ => none
        | _ => none)
      let s' : State := { seq := accts.map (fun x => (x.1, x.2.1)), bal := accts.map (fun x => (x.1, x.2.2)), collector := c, blockGasLimit := bgl, supply := sup }
      let v' : View := { accts := accts.map (·.1) }
      ((s', v'), "ok " ++ render v' s')
    | _, _, _ => (st, "bad-op")
  | ["tx", msgs] =>
    match (parseItems "," msgs).mapM parseMsg with
    | some ms =>
      let (s', r) := deliver s ms
      ((s', v), (match r with | .rejected => "rejected" | .execFailed => "execfailed" | .ok => "ok") ++ " " ++ render v s')
    | none => (st, "bad-op")
  | _ => (st, "bad-op")

end Nibiru.EvmTx
