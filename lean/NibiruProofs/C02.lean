/-
  C02 — An Ethereum tx message executes only behind the EVM ante pipeline.
  Theorems about NibiruModel.MsgTree.
-/
import NibiruProofs.MsgTreeLemmas
import Generated.Facts
namespace Nibiru.MsgTree

theorem runAll_noEth (E : EthOnly) (ms : List Msg) (s s' : State) (hinv : Inv E s)
    (hsig : ∀ m ∈ ms, E m.signer = false) (hwf : WFs E ms) (h : runAll s ms = some s') :
    s'.ethRuns = s.ethRuns ∧ Inv E s' := by
  induction ms generalizing s with
  | nil => simp only [runAll] at h; injection h with e; subst e; exact ⟨rfl, hinv⟩
  | cons m rest ih =>
    simp only [WFs] at hwf
    simp only [runAll] at h
    cases hr : run s m with
    | none => simp [hr] at h
    | some s1 =>
      simp only [hr] at h
      obtain ⟨i1, i2⟩ := run_noEth E m s s1 hinv (hsig m List.mem_cons_self) hwf.1 hr
      obtain ⟨j1, j2⟩ := ih s1 i2 (fun x hx => hsig x (List.mem_cons_of_mem _ hx)) hwf.2 h
      exact ⟨by rw [j1, i1], j2⟩

/-- a tx is signed by Cosmos-capable accounts: every top-level message other than a MsgEthereumTx has a signer that is not
    Ethereum-only (the signature check refuses eth_secp256k1 keys, so an Ethereum-only address can never have signed) -/
def CosmosSigned (E : EthOnly) (tx : Tx) : Prop := ∀ m ∈ tx.msgs, isEth m = false → E m.signer = false

/-- **C02.** For every state without grants from Ethereum-only addresses, every transaction — any message tree, any depth, any
    grant configuration, either commission guard — if it is accepted then the EthereumTx handler ran outside the EVM admission
    pipeline exactly zero times: a MsgEthereumTx takes effect only as a direct message of a tx carrying the EVM extension option,
    all of whose messages went through the EVM ante chain. The grant invariant is preserved, so the statement holds along every
    history. -/
theorem C02_ethTx_only_behind_evm_ante (E : EthOnly) (g : CommGuard) (s s' : State) (tx : Tx) (hinv : Inv E s)
    (hwf : WFs E tx.msgs) (hsig : CosmosSigned E tx) (h : deliver g s tx = some s') :
    s'.ethRuns = s.ethRuns ∧ Inv E s' ∧ (tx.evmExt = true → tx.msgs.all isEth = true ∧ s'.ethLegit = s.ethLegit + tx.msgs.length) ∧
    (tx.evmExt = false → s'.ethLegit = s.ethLegit ∧ tx.msgs.all guardEth = true) := by
  unfold deliver at h
  cases hext : tx.evmExt
  · simp only [hext, Bool.false_eq_true, if_false] at h
    split at h; · cases h
    split at h; · cases h
    rename_i hge
    split at h; · cases h
    have hge' : tx.msgs.all guardEth = true := by simpa using hge
    have hs : ∀ m ∈ tx.msgs, E m.signer = false := by
      intro m hm
      apply hsig m hm
      have := List.all_eq_true.mp hge' m hm
      cases m <;> simp_all [guardEth, isEth]
    obtain ⟨i1, i2⟩ := runAll_noEth E tx.msgs s s' hinv hs hwf h
    -- ethLegit untouched by message execution
    have key : ∀ (ms : List Msg) (a b : State), runAll a ms = some b → b.ethLegit = a.ethLegit := by
      intro ms
      induction ms with
      | nil => intro a b hab; simp only [runAll] at hab; injection hab with e; subst e; rfl
      | cons m rest ih =>
        intro a b hab
        simp only [runAll] at hab
        cases hr : run a m with
        | none => simp [hr] at hab
        | some a1 => simp only [hr] at hab; rw [ih a1 b hab, legit_run m a a1 hr]
    refine ⟨i1, i2, ?_, ?_⟩
    · intro h'; cases h'
    · intro _; exact ⟨key tx.msgs s s' h, hge'⟩
  · simp only [hext, if_true] at h
    split at h
    · rename_i hall
      injection h with e; subst e
      refine ⟨rfl, hinv, fun _ => ⟨hall, rfl⟩, ?_⟩
      intro h'; cases h'
    · cases h

/-- running a history of transactions (rejected ones leave the state alone) -/
def runTxs (g : CommGuard) (s : State) : List Tx → State
  | [] => s
  | tx :: txs => runTxs g ((deliver g s tx).getD s) txs

/-- **C02 over histories**: from a state without Ethereum-only granters (e.g. genesis), whatever transactions are delivered, the
    EthereumTx handler is never reached outside the EVM pipeline — in particular nobody can collect a gas refund that was not paid
    for or rewind a nonce through a wrapper. -/
theorem C02_history (E : EthOnly) (g : CommGuard) (txs : List Tx) (s : State) (hinv : Inv E s)
    (hok : ∀ tx ∈ txs, WFs E tx.msgs ∧ CosmosSigned E tx) : (runTxs g s txs).ethRuns = s.ethRuns := by
  induction txs generalizing s with
  | nil => rfl
  | cons tx txs ih =>
    simp only [runTxs]
    obtain ⟨h1, h2⟩ := hok tx List.mem_cons_self
    cases hd : deliver g s tx with
    | none => simp only [Option.getD]; exact ih s hinv (fun t ht => hok t (List.mem_cons_of_mem _ ht))
    | some s1 =>
      simp only [Option.getD]
      obtain ⟨i1, i2, _, _⟩ := C02_ethTx_only_behind_evm_ante E g s s1 tx hinv h1 h2 hd
      rw [ih s1 i2 (fun t ht => hok t (List.mem_cons_of_mem _ ht)), i1]

/-- non-vacuity: a depth-3 wrapper around a MsgEthereumTx, with grants in the state; the hypotheses hold and the tx is refused
    (the inner dispatch finds no grant from the Ethereum-only sender) -/
example :
    Inv (fun a => a == ethAcct) { grants := [(1, 0, .exec), (0, 2, .eth)] } ∧
    WFs (fun a => a == ethAcct) [.exec 0 [.exec 1 [.exec 1 [.eth ethAcct]]], .send 0] ∧
    deliver .throughExec { grants := [(1, 0, .exec), (0, 2, .eth)] }
      { evmExt := false, sigOk := true, msgs := [.exec 0 [.exec 1 [.exec 1 [.eth ethAcct]]], .send 0] } = none ∧
    (deliver .throughExec { grants := [(1, 0, .exec), (0, 2, .eth)] }
      { evmExt := false, sigOk := true, msgs := [.exec 0 [.exec 1 [.send 1]]] }).isSome = true := by
  refine ⟨?_, ?_, by decide, by decide⟩
  · intro g hg; simp only [List.mem_cons, List.mem_nil_iff, or_false] at hg
    rcases hg with e | e <;> subst e <;> decide
  · simp [WFs, WF, ethAcct]

/-! ### T1: the ante chains and the extension-option routing (regenerated from the source on every run) -/

/-- the two Ethereum guards are the first decorators of the non-EVM chain, and the signature checks are present -/
theorem fact_C02_nonEVM_chain : Generated.anteChainNonEVM =
    ["ante.AnteDecoratorPreventEtheruemTxMsgs", "ante.AnteDecoratorAuthzGuard", "authante.NewSetUpContextDecorator",
     "wasmkeeper.NewLimitSimulationGasDecorator", "wasmkeeper.NewCountTXDecorator", "authante.NewExtensionOptionsDecorator",
     "authante.NewValidateBasicDecorator", "authante.NewTxTimeoutHeightDecorator", "authante.NewValidateMemoDecorator",
     "ante.AnteDecoratorEnsureSinglePostPriceMessage", "ante.AnteDecoratorStakingCommission",
     "authante.NewConsumeGasForTxSizeDecorator", "authante.NewDeductFeeDecorator", "devgasante.NewDevGasPayoutDecorator",
     "authante.NewSetPubKeyDecorator", "authante.NewValidateSigCountDecorator", "authante.NewSigGasConsumeDecorator",
     "authante.NewSigVerificationDecorator", "authante.NewIncrementSequenceDecorator", "ibcante.NewRedundantRelayDecorator",
     "ante.AnteDecoratorGasWanted"] := by decide

/-- the signer of a MsgEthereumTx is derived from its signature only: GetSigners / GetSender never READ the unauthenticated
    wire field `From` (the model's `Msg.signer (.eth s) = s` with `s` the recovered address rests on this) -/
theorem fact_C02_eth_signer_is_recovered :
    Generated.ethTxSignerReadsOfFrom = [] ∧ Generated.ethTxGetSignersReturns = ["[]sdk.AccAddress{signer}"] := by decide

/-- only the Ethereum extension option selects the EVM chain; every other extension option is rejected -/
theorem fact_C02_extension_routing : Generated.anteExtensionRouting =
    ["\"/eth.evm.v1.ExtensionOptionsEthereumTx\"=>evm-chain", "default=>reject"] := by decide

/-- the mechanism behind `EthAddrDisjoint` (an account recovered from an Ethereum signature cannot sign a Cosmos tx): wherever the
    application configures the signature gas consumer of the Cosmos ante chain it is the SDK's `DefaultSigVerificationGasConsumer`,
    which rejects every key type it does not know — `eth_secp256k1` among them -/
theorem fact_C02_cosmos_signature_path_rejects_eth_keys :
    Generated.sigGasConsumerValues =
      ["app/ante/handler_opts.go: sdkante.DefaultSigVerificationGasConsumer",
       "app/app.go: authante.DefaultSigVerificationGasConsumer"] := by decide

end Nibiru.MsgTree
