package main

import (
	"fmt"
	"math/big"
	"strings"

	abci "github.com/cometbft/cometbft/abci/types"

	sdk "github.com/cosmos/cosmos-sdk/types"
	bank "github.com/cosmos/cosmos-sdk/x/bank/types"
	authtypes "github.com/cosmos/cosmos-sdk/x/auth/types"
	gethcommon "github.com/ethereum/go-ethereum/common"
	gethcore "github.com/ethereum/go-ethereum/core/types"
	"github.com/ethereum/go-ethereum/crypto"

	"github.com/NibiruChain/nibiru/v2/eth"
	"github.com/NibiruChain/nibiru/v2/x/common/testutil/testapp"
	"github.com/NibiruChain/nibiru/v2/x/evm"
	"github.com/NibiruChain/nibiru/v2/x/evm/embeds"
	"github.com/NibiruChain/nibiru/v2/x/evm/evmtest"
	"github.com/NibiruChain/nibiru/v2/x/evm/precompile"

	"verif/harness/internal/easm"
	"verif/harness/internal/hx"
)

func init() { runners["logidx"] = runLogIndex }

// loggerRuntime: calldata[0] = number of LOG0 to emit, calldata[1] != 0 => REVERT afterwards,
// calldata[2] != 0 => first call itself with [calldata[3], 1]: an inner frame that emits calldata[3] logs and reverts
// (its logs must vanish), the failure is ignored and the outer frame goes on.
func loggerRuntime() []byte {
	a := easm.New()
	a.Push(2).Op(easm.CALLDATALOAD).Push(0xf8).Op(easm.SHR).Op(easm.ISZERO).JumpiTo("main")
	a.Push(3).Op(easm.CALLDATALOAD).Push(0xf8).Op(easm.SHR).Push(0).Op(easm.MSTORE8)
	a.Push(1).Push(1).Op(easm.MSTORE8)
	a.Push(0).Push(2).Op(easm.MSTORE8)
	a.Push(0).Push(0).Push(3).Push(0).Push(0).Op(easm.ADDRESS, easm.GAS, easm.CALL, easm.POP)
	a.Label("main")
	a.Push(0).Op(easm.CALLDATALOAD).Push(0xf8).Op(easm.SHR) // n
	a.Label("loop").Op(easm.DUP1, easm.ISZERO).JumpiTo("end")
	// odd-numbered logs carry one topic: the emitting contract's own address, left-padded as an indexed `address` argument is
	// (emitter and topic are different bloom entries although they spell the same 20 bytes)
	a.Op(easm.DUP1).Push(1).Op(easm.AND).JumpiTo("log1")
	a.Push(0).Push(0).Op(easm.LOG0).JumpTo("next")
	a.Label("log1").Op(easm.ADDRESS).Push(0).Push(0).Op(easm.LOG1)
	a.Label("next")
	a.Push(1).Op(easm.SWAP1, easm.SUB).JumpTo("loop")
	a.Label("end").Op(easm.POP)
	a.Push(1).Op(easm.CALLDATALOAD).Push(0xf8).Op(easm.SHR).JumpiTo("rev")
	a.Op(easm.STOP)
	a.Label("rev").Push(0).Push(0).Op(easm.REVERT)
	return a.Bytes()
}

func signedEthTx(deps *evmtest.TestDeps, from evmtest.EthPrivKeyAcc, nonce uint64, to *gethcommon.Address, value *big.Int, gas uint64, gasPrice *big.Int, data []byte) (*evm.MsgEthereumTx, error) {
	tx := gethcore.NewTx(&gethcore.LegacyTx{Nonce: nonce, To: to, Value: value, Gas: gas, GasPrice: gasPrice, Data: data})
	msg := new(evm.MsgEthereumTx)
	if err := msg.FromEthereumTx(tx); err != nil {
		return nil, err
	}
	msg.From = from.EthAddr.Hex()
	signer := gethcore.LatestSignerForChainID(deps.App.EvmKeeper.EthChainID(deps.Ctx))
	return msg, msg.Sign(signer, from.KeyringSigner)
}

// evmLogsOfEvents returns the logs carried by EventTxLog events and the indices reported by EventEthereumTx events.
func evmLogsOfEvents(evs sdk.Events) (logs []evm.Log, txIdx []string) {
	for _, e := range evs {
		te, err := sdk.ParseTypedEvent(abci.Event(e))
		if err != nil {
			continue
		}
		switch v := te.(type) {
		case *evm.EventTxLog:
			logs = append(logs, v.Logs...)
		case *evm.EventEthereumTx:
			txIdx = append(txIdx, v.Index)
		}
	}
	return
}

func logsOfEvents(evs sdk.Events) []string {
	var out []string
	logs, _ := evmLogsOfEvents(evs)
	for _, lg := range logs {
		out = append(out, fmt.Sprintf("%d/%d", lg.Index, lg.TxIndex))
	}
	return out
}

func runLogIndex(r *hx.R, n int, w *hx.W, _ []string) error {
	deps := evmtest.NewTestDeps()
	k := deps.EvmKeeper
	one18 := new(big.Int).Exp(big.NewInt(10), big.NewInt(18), nil)
	if err := testapp.FundAccount(deps.App.BankKeeper, deps.Ctx, deps.Sender.NibiruAddr, sdk.NewCoins(sdk.NewCoin("unibi", sdk.NewIntFromBigInt(new(big.Int).Mul(one18, big.NewInt(1)))))); err != nil {
		return err
	}
	if err := testapp.FundModuleAccount(deps.App.BankKeeper, deps.Ctx, authtypes.FeeCollectorName, sdk.NewCoins(sdk.NewCoin("unibi", sdk.NewIntFromBigInt(one18)))); err != nil {
		return err
	}
	gasPrice := big.NewInt(1_000_000_000_000) // 1 unibi per gas, in wei
	nonce := k.GetAccNonce(deps.Ctx, deps.Sender.EthAddr)
	// deploy the logger
	dmsg, err := signedEthTx(&deps, deps.Sender, nonce, nil, big.NewInt(0), 500_000, gasPrice, easm.Deployer(loggerRuntime()))
	if err != nil {
		return err
	}
	if resp, err := k.EthereumTx(sdk.WrapSDKContext(deps.Ctx), dmsg); err != nil || resp.VmError != "" {
		return fmt.Errorf("deploy logger: %v %v", err, resp)
	}
	logger := crypto.CreateAddress(deps.Sender.EthAddr, nonce)
	nonce++
	// a coin-born FunToken for "ulog"
	mkMeta := func(d string) bank.Metadata {
		return bank.Metadata{DenomUnits: []*bank.DenomUnit{{Denom: d, Exponent: 0}}, Base: d, Display: d, Name: d, Symbol: d}
	}
	deps.App.BankKeeper.SetDenomMetaData(deps.Ctx, mkMeta("ulog"))
	_ = testapp.FundAccount(deps.App.BankKeeper, deps.Ctx, deps.Sender.NibiruAddr, k.FeeForCreateFunToken(deps.Ctx).MulInt(sdk.NewInt(10000)))
	if _, err := k.CreateFunToken(sdk.WrapSDKContext(deps.Ctx), &evm.MsgCreateFunToken{FromBankDenom: "ulog", Sender: deps.Sender.NibiruAddr.String()}); err != nil {
		return fmt.Errorf("create funtoken: %w", err)
	}
	_ = testapp.FundAccount(deps.App.BankKeeper, deps.Ctx, deps.Sender.NibiruAddr, sdk.NewCoins(sdk.NewInt64Coin("ulog", 1_000_000_000)))
	// an ERC20-born FunToken: TestERC20 deployed by the sender, mapped, and some of it converted to its bank coin
	erc20Nonce := k.GetAccNonce(deps.Ctx, deps.Sender.EthAddr)
	erc20Args, _ := embeds.SmartContract_TestERC20.ABI.Pack("")
	em, err := signedEthTx(&deps, deps.Sender, erc20Nonce, nil, big.NewInt(0), 3_000_000, gasPrice, append(append([]byte{}, embeds.SmartContract_TestERC20.Bytecode...), erc20Args...))
	if err != nil {
		return err
	}
	if resp, err := k.EthereumTx(sdk.WrapSDKContext(deps.Ctx), em); err != nil || resp.VmError != "" {
		return fmt.Errorf("deploy erc20: %v %v", err, resp)
	}
	erc20Born := crypto.CreateAddress(deps.Sender.EthAddr, erc20Nonce)
	if _, err := k.CreateFunToken(sdk.WrapSDKContext(deps.Ctx), &evm.MsgCreateFunToken{FromErc20: &eth.EIP55Addr{Address: erc20Born}, Sender: deps.Sender.NibiruAddr.String()}); err != nil {
		return fmt.Errorf("create funtoken from erc20: %w", err)
	}
	erc20Denom := "erc20/" + erc20Born.Hex()
	{
		in, _ := embeds.SmartContract_FunToken.ABI.Pack("sendToBank", erc20Born, big.NewInt(1_000_000), deps.Sender.NibiruAddr.String())
		pcAddr := precompile.PrecompileAddr_FunToken
		sm, err := signedEthTx(&deps, deps.Sender, k.GetAccNonce(deps.Ctx, deps.Sender.EthAddr), &pcAddr, big.NewInt(0), 3_000_000, gasPrice, in)
		if err != nil {
			return err
		}
		if resp, err := k.EthereumTx(sdk.WrapSDKContext(deps.Ctx), sm); err != nil || resp.VmError != "" {
			return fmt.Errorf("initial sendToBank: %v %v", err, resp)
		}
	}
	nonce = k.GetAccNonce(deps.Ctx, deps.Sender.EthAddr)
	base := deps.Ctx
	seqDenom := 0
	for c := 0; c < n; c++ {
		bctx, _ := base.CacheContext() // a block: the transient counters start from zero and are dropped afterwards
		bctx = bctx.WithBlockHeight(base.BlockHeight() + 1 + int64(c))
		// what Commit does to the transient store between blocks
		k.EvmState.BlockTxIndex.Set(bctx, 0)
		k.EvmState.BlockLogSize.Set(bctx, 0)
		k.EvmState.BlockBloom.Set(bctx, []byte{})
		w.Step("logidx newblock", "ok")
		blockNonce := nonce
		var allLogs []*gethcore.Log
		var ethIdx []string
		collect := func(cx sdk.Context) {
			lg, ix := evmLogsOfEvents(cx.EventManager().Events())
			allLogs = append(allLogs, evm.LogsToEthereum(lg)...)
			ethIdx = append(ethIdx, ix...)
		}
		steps := 1 + r.Pick(9)
		for i := 0; i < steps; i++ {
			tctx, commit := bctx.CacheContext()
			tctx = tctx.WithEventManager(sdk.NewEventManager())
			counters := func(cx sdk.Context) string {
				return fmt.Sprintf("txIndex=%d logSize=%d", k.EvmState.BlockTxIndex.GetOr(cx, 0), k.EvmState.BlockLogSize.GetOr(cx, 0))
			}
			switch ch := r.Pick(13); {
			case ch == 10: // an Ethereum tx straight to the FunToken precompile: sendToBank of the ERC20-born token (ERC20 Transfer log + mirrored events)
				in, _ := embeds.SmartContract_FunToken.ABI.Pack("sendToBank", erc20Born, big.NewInt(r.Range(1, 500)), deps.Sender.NibiruAddr.String())
				pcAddr := precompile.PrecompileAddr_FunToken
				msg, err := signedEthTx(&deps, deps.Sender, blockNonce, &pcAddr, big.NewInt(0), 3_000_000, gasPrice, in)
				if err != nil {
					return err
				}
				nl := 0
				res := hx.Recover(func() string {
					resp, err := k.EthereumTx(sdk.WrapSDKContext(tctx), msg)
					got := "ok"
					if err != nil {
						got = "failed"
					} else if resp.VmError != "" {
						got = "reverted"
					}
					if got != "failed" {
						commit()
						blockNonce++
						collect(tctx)
					}
					nl = len(logsOfEvents(tctx.EventManager().Events()))
					return fmt.Sprintf("%s logs=%s %s", got, items(logsOfEvents(tctx.EventManager().Events())), counters(bctx))
				})
				w.Count("ethpc:" + strings.SplitN(res, " ", 2)[0])
				w.Step(fmt.Sprintf("logidx eth %d %s", nl, strings.SplitN(res, " ", 2)[0]), res)
			case ch >= 11: // ConvertCoinToEvm of the ERC20-born FunToken: an ERC20 transfer out of the module's escrow
				amt := r.Range(1, 300)
				if r.Chance(1, 8) {
					amt = 1_000_000_000_000_000
				}
				nl := 0
				res := hx.Recover(func() string {
					_, err := k.ConvertCoinToEvm(sdk.WrapSDKContext(tctx), &evm.MsgConvertCoinToEvm{Sender: deps.Sender.NibiruAddr.String(),
						BankCoin: sdk.NewInt64Coin(erc20Denom, amt), ToEthAddr: eth.EIP55Addr{Address: deps.Sender.EthAddr}})
					got := "ok"
					if err != nil {
						got = "failed"
					} else {
						commit()
						collect(tctx)
						nl = len(logsOfEvents(tctx.EventManager().Events()))
					}
					return fmt.Sprintf("%s logs=%s %s", got, items(logsOfEvents(tctx.EventManager().Events())), counters(bctx))
				})
				k.Bank.StateDB = nil
				w.Count("convertErc20:" + strings.SplitN(res, " ", 2)[0])
				w.Step(fmt.Sprintf("logidx cosmos convertErc20Born %d %s", nl, strings.SplitN(res, " ", 2)[0]), res)
			case ch < 6: // an Ethereum tx to the logger
				nlogs := r.Pick(5)
				mode := "ok"
				data := []byte{byte(nlogs), 0, 0, 0}
				if r.Chance(1, 3) { // an inner frame that logs and reverts before the outer logs
					data[2], data[3] = 1, byte(1+r.Pick(3))
				}
				gas := uint64(300_000)
				switch r.Pick(8) {
				case 0:
					mode, data[1] = "reverted", 1
				case 1:
					mode, gas = "failed", 1000 // below the intrinsic gas: the message returns an error
				}
				msg, err := signedEthTx(&deps, deps.Sender, blockNonce, &logger, big.NewInt(0), gas, gasPrice, data)
				if err != nil {
					return err
				}
				res := hx.Recover(func() string {
					resp, err := k.EthereumTx(sdk.WrapSDKContext(tctx), msg)
					got := "ok"
					if err != nil {
						got = "failed"
					} else if resp.VmError != "" {
						got = "reverted"
					}
					if got != "failed" {
						commit()
						blockNonce++
						collect(tctx)
					}
					return fmt.Sprintf("%s logs=%s %s", got, items(logsOfEvents(tctx.EventManager().Events())), counters(bctx))
				})
				w.Count("eth:" + strings.SplitN(res, " ", 2)[0])
				w.Step(fmt.Sprintf("logidx eth %d %s", nlogs, mode), res)
			case ch < 9: // ConvertCoinToEvm of the coin-born FunToken: one ERC20 mint log
				amt := r.Range(1, 1000)
				ok := "ok"
				if r.Chance(1, 8) {
					amt, ok = 1_000_000_000_000_000, "failed" // more than the balance
				}
				res := hx.Recover(func() string {
					_, err := k.ConvertCoinToEvm(sdk.WrapSDKContext(tctx), &evm.MsgConvertCoinToEvm{Sender: deps.Sender.NibiruAddr.String(),
						BankCoin: sdk.NewInt64Coin("ulog", amt), ToEthAddr: eth.EIP55Addr{Address: deps.Sender.EthAddr}})
					got := "ok"
					if err != nil {
						got = "failed"
					} else {
						commit()
						collect(tctx)
					}
					return fmt.Sprintf("%s logs=%s %s", got, items(logsOfEvents(tctx.EventManager().Events())), counters(bctx))
				})
				w.Count("convert:" + strings.SplitN(res, " ", 2)[0])
				nl := 1
				if ok == "failed" {
					nl = 0
				}
				w.Step(fmt.Sprintf("logidx cosmos convertCoinBorn %d %s", nl, ok), res)
			default: // CreateFunToken for a fresh bank coin: ERC20 deployment (constructor logs)
				seqDenom++
				d := fmt.Sprintf("ucoin%d", seqDenom)
				deps.App.BankKeeper.SetDenomMetaData(tctx, mkMeta(d))
				res := hx.Recover(func() string {
					_, err := k.CreateFunToken(sdk.WrapSDKContext(tctx), &evm.MsgCreateFunToken{FromBankDenom: d, Sender: deps.Sender.NibiruAddr.String()})
					got := "ok"
					if err != nil {
						got = "failed:" + strings.ReplaceAll(err.Error(), " ", "_")
					} else {
						commit()
						collect(tctx)
					}
					return fmt.Sprintf("%s logs=%s %s", got, items(logsOfEvents(tctx.EventManager().Events())), counters(bctx))
				})
				w.Count("deploy:" + strings.SplitN(res, " ", 2)[0])
				nl := len(strings.Split(strings.TrimPrefix(strings.Fields(res)[1], "logs="), ","))
				if strings.Contains(res, "logs=- ") {
					nl = 0
				}
				w.Step(fmt.Sprintf("logidx cosmos deployErc20 %d ok", nl), res)
			}
		}
		// end of block: the bloom event must be the union of the blooms of all logs emitted (by eth txs and FunToken ops alike)
		ectx := bctx.WithEventManager(sdk.NewEventManager())
		res := hx.Recover(func() string {
			k.EndBlock(ectx, abci.RequestEndBlock{})
			got := ""
			for _, e := range ectx.EventManager().Events() {
				if te, err := sdk.ParseTypedEvent(abci.Event(e)); err == nil {
					if b, ok := te.(*evm.EventBlockBloom); ok {
						got = b.Bloom
					}
				}
			}
			want := eth.BloomToHex(gethcore.BytesToBloom(gethcore.LogsBloom(allLogs)))
			verdict := fmt.Sprintf("union-of-%d-logs", len(allLogs))
			if got != want {
				verdict = "MISMATCH"
			}
			return fmt.Sprintf("bloom=%s ethTxs=%s", verdict, items(ethIdx))
		})
		w.Step("logidx endblock", res)
	}
	return nil
}
