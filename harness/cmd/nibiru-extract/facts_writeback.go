package main

import (
	"fmt"
	"go/ast"
	"go/token"
	"strings"
)

// Facts about the write-back of a StateDB into its context (C09): Keeper.SetAccBalance is reached from StateDB.Commit and from the
// intermediate flush at every precompile entry, in DeliverTx and in queries alike. If one of its coin movements went through the
// NibiruBankKeeper wrapper, the wrapper would mirror balances of the flushing StateDB's context into whatever StateDB
// Keeper.Bank.StateDB designates at that moment — possibly the block's.
//   setAccBalanceBankCalls       every method call in SetAccBalance whose receiver starts at `k` or at a local bound to a keeper, in
//                                source order, as "recv.Method"
//   setAccBalanceKeeperBindings  every short variable declaration in SetAccBalance whose right-hand side mentions `Bank`
func init() {
	extractors["writeback"] = func(repo string, out *leanFile, js map[string]any) error {
		fd := findFunc(repo, "x/evm/keeper", "Keeper.SetAccBalance")
		if fd == nil || fd.Body == nil {
			return fmt.Errorf("Keeper.SetAccBalance not found")
		}
		bound := map[string]bool{"k": true}
		var binds, calls []string
		ast.Inspect(fd.Body, func(n ast.Node) bool {
			if as, ok := n.(*ast.AssignStmt); ok && as.Tok == token.DEFINE && len(as.Lhs) == 1 && len(as.Rhs) == 1 {
				rhs := exprString(as.Rhs[0])
				if id, ok := as.Lhs[0].(*ast.Ident); ok && strings.Contains(rhs, "Bank") && !strings.Contains(rhs, "(") {
					bound[id.Name] = true
					binds = append(binds, id.Name+" := "+rhs)
				}
			}
			return true
		})
		ast.Inspect(fd.Body, func(n ast.Node) bool {
			ce, ok := n.(*ast.CallExpr)
			if !ok {
				return true
			}
			se, ok := ce.Fun.(*ast.SelectorExpr)
			if !ok {
				return true
			}
			root := se.X
			for {
				if inner, ok := root.(*ast.SelectorExpr); ok {
					root = inner.X
					continue
				}
				break
			}
			if id, ok := root.(*ast.Ident); ok && bound[id.Name] {
				calls = append(calls, exprString(se.X)+"."+se.Sel.Name)
			}
			return true
		})
		out.f("def setAccBalanceBankCalls : List String := %s\n", leanStrList(calls))
		out.f("def setAccBalanceKeeperBindings : List String := %s\n", leanStrList(binds))
		return nil
	}
}
