package main

import (
	"time"
	"fmt"
	"math/big"
	"strings"

	sdkmath "cosmossdk.io/math"
	authtypes "github.com/cosmos/cosmos-sdk/x/auth/types"
	sdk "github.com/cosmos/cosmos-sdk/types"

	"github.com/NibiruChain/nibiru/v2/x/common/denoms"
	"github.com/NibiruChain/nibiru/v2/x/epochs"
	epochstypes "github.com/NibiruChain/nibiru/v2/x/epochs/types"
	"github.com/NibiruChain/nibiru/v2/x/common/testutil/testapp"
	inflationtypes "github.com/NibiruChain/nibiru/v2/x/inflation/types"

	"verif/harness/internal/hx"
)

func init() { runners["infl"] = runInflation }

func decRaw(d sdkmath.LegacyDec) string { return d.BigInt().String() }

func joinDecs(ds []sdkmath.LegacyDec) string {
	if len(ds) == 0 {
		return "-"
	}
	p := make([]string, len(ds))
	for i, d := range ds {
		p[i] = decRaw(d)
	}
	return strings.Join(p, ",")
}

func genDistribution(r *hx.R) inflationtypes.InflationDistribution {
	e18 := int64(1_000_000_000_000_000_000)
	var a, b int64
	switch r.Pick(6) {
	case 4: // no strategic share at all, two shares that leave truncation dust: the remainder still has to leave the module account
		a = r.Range(1, e18-1)
		b = e18 - a
	case 5:
		a = r.Range(1, 999) * (e18 / 1000)
		b = e18 - a
	case 0:
		a, b = 281250000000000000, 354825000000000000 // defaults
	case 1:
		a = r.Range(0, e18)
		b = r.Range(0, e18-a)
	case 2:
		a, b = e18, 0
	default:
		a = r.Range(0, 1000) * (e18 / 1000)
		b = r.Range(0, 1000-a/(e18/1000)) * (e18 / 1000)
	}
	c := e18 - a - b
	mk := func(x int64) sdkmath.LegacyDec { return sdkmath.LegacyNewDecFromBigIntWithPrec(big.NewInt(x), 18) }
	return inflationtypes.InflationDistribution{StakingRewards: mk(a), CommunityPool: mk(b), StrategicReserves: mk(c)}
}

func genFactors(r *hx.R) []sdkmath.LegacyDec {
	switch r.Pick(5) {
	case 4: // positive but tiny: around (and mostly below) one unibi per epoch, so that floor(polynomial*10^6/EpochsPerPeriod) is 0, 1, 2…
		return []sdkmath.LegacyDec{sdkmath.LegacyNewDecFromBigIntWithPrec(big.NewInt(r.Range(1, 40_000_000)), 12)}
	case 0:
		return inflationtypes.DefaultParams().PolynomialFactors
	case 1: // constant
		return []sdkmath.LegacyDec{sdkmath.LegacyNewDecFromBigIntWithPrec(big.NewInt(r.Range(1, 1_000_000_000_000)*1_000_000), 18)}
	case 2: // decreasing line that turns negative
		return []sdkmath.LegacyDec{sdkmath.LegacyNewDec(-r.Range(1, 5)), sdkmath.LegacyNewDec(r.Range(1, 60))}
	default:
		n := 1 + r.Pick(5)
		fs := make([]sdkmath.LegacyDec, n)
		for i := range fs {
			v := r.Range(-1_000_000_000, 1_000_000_000_000)
			if i == n-1 {
				v = r.Range(1, 1_000_000_000_000_000)
			} else if r.Chance(1, 3) {
				v = 0 // a sparse polynomial: the term of this degree is absent, the others keep their exponents
			}
			fs[i] = sdkmath.LegacyNewDecFromBigIntWithPrec(new(big.Int).Mul(big.NewInt(v), big.NewInt(r.Range(1, 1_000_000_000))), 18)
		}
		return fs
	}
}

func runInflation(r *hx.R, n int, w *hx.W, _ []string) error {
	nibiru, ctx0 := testapp.NewNibiruTestAppAndContext()
	k := nibiru.InflationKeeper
	root, err := nibiru.SudoKeeper.GetRootAddr(ctx0)
	if err != nil {
		return err
	}
	modAddr := nibiru.AccountKeeper.GetModuleAddress(inflationtypes.ModuleName)
	feeAddr := nibiru.AccountKeeper.GetModuleAddress(authtypes.FeeCollectorName)
	for seq := 0; seq < n; seq++ {
		ctx, _ := ctx0.CacheContext()
		p := inflationtypes.DefaultParams()
		p.EpochsPerPeriod = uint64([]int64{1, 2, 3, 5, 30, 7}[r.Pick(6)])
		p.MaxPeriod = uint64(r.Range(0, 12))
		p.PeriodsPerYear = uint64(r.Range(1, 12))
		p.PolynomialFactors = genFactors(r)
		p.InflationDistribution = genDistribution(r)
		p.HasInflationStarted = r.Chance(1, 2)
		p.InflationEnabled = p.HasInflationStarted && r.Chance(1, 2)
		// counters: coherent most of the time (n - skipped in [E*period, E*period+E)), sometimes arbitrary
		period := uint64(r.Range(0, 4))
		skipped := uint64(r.Range(0, 20))
		epoch := p.EpochsPerPeriod*period + skipped + uint64(r.Range(0, int64(p.EpochsPerPeriod)-1))
		if !p.HasInflationStarted {
			period, skipped = 0, epoch
		}
		if r.Chance(1, 8) {
			period, skipped, epoch = uint64(r.Range(0, 6)), uint64(r.Range(0, 9)), uint64(r.Range(0, 30))
		}
		k.Params.Set(ctx, p)
		k.CurrentPeriod.Set(ctx, period)
		k.NumSkippedEpochs.Set(ctx, skipped)
		b2 := func(b bool) string {
			if b {
				return "1"
			}
			return "0"
		}
		w.Step(fmt.Sprintf("infl reset %d %d %s %s %d %d %d %s %s %s %s", period, skipped, b2(p.InflationEnabled), b2(p.HasInflationStarted),
			p.EpochsPerPeriod, p.MaxPeriod, p.PeriodsPerYear, decRaw(p.InflationDistribution.StakingRewards),
			decRaw(p.InflationDistribution.CommunityPool), decRaw(p.InflationDistribution.StrategicReserves), joinDecs(p.PolynomialFactors)), "ok")
		render := func(minted, st, cm, sr sdkmath.Int) string {
			pp, _ := k.Params.Get(ctx)
			return fmt.Sprintf("%s %s %s %s bal=%s period=%d skipped=%d en=%s st=%s", minted, st, cm, sr,
				nibiru.BankKeeper.GetBalance(ctx, modAddr, denoms.NIBI).Amount, k.CurrentPeriod.Peek(ctx), k.NumSkippedEpochs.Peek(ctx),
				b2(pp.InflationEnabled), b2(pp.HasInflationStarted))
		}
		zero := sdkmath.ZeroInt()
		steps := 5 + r.Pick(60)
		for i := 0; i < steps; i++ {
			switch c := r.Pick(12); {
			case c == 0: // toggle
				en := r.Chance(1, 2)
				res := hx.Recover(func() string {
					if err := k.Sudo().ToggleInflation(ctx, en, root); err != nil {
						return "err"
					}
					return render(zero, zero, zero, zero)
				})
				w.Count("toggle")
				w.Step("infl toggle "+b2(en), res)
			case c == 1: // edit params (keeps EpochsPerPeriod / MaxPeriod most of the time)
				msg := inflationtypes.MsgEditInflationParams{Sender: root.String()}
				eppS, maxS, ppyS, psS, pcS, prS, fS := "-", "-", "-", "-", "-", "-", "-"
				if r.Chance(1, 2) {
					msg.PolynomialFactors = genFactors(r)
					fS = joinDecs(msg.PolynomialFactors)
				}
				if r.Chance(1, 2) {
					d := genDistribution(r)
					if r.Chance(1, 6) { // invalid: does not sum to one
						d.CommunityPool = d.CommunityPool.Add(sdkmath.LegacyNewDecWithPrec(1, 3))
					}
					msg.InflationDistribution = &d
					psS, pcS, prS = decRaw(d.StakingRewards), decRaw(d.CommunityPool), decRaw(d.StrategicReserves)
				}
				if r.Chance(1, 3) {
					v := sdkmath.NewInt(r.Range(0, 12))
					msg.PeriodsPerYear = &v
					ppyS = v.String()
				}
				if r.Chance(1, 6) {
					v := sdkmath.NewInt(r.Range(0, 8))
					msg.EpochsPerPeriod = &v
					eppS = v.String()
				}
				if r.Chance(1, 6) {
					v := sdkmath.NewInt(r.Range(0, 12))
					msg.MaxPeriod = &v
					maxS = v.String()
				}
				res := hx.Recover(func() string {
					cctx, commit := ctx.CacheContext() // the chain discards the writes of a failed message
					if err := k.Sudo().EditInflationParams(cctx, msg, root); err != nil {
						return "invalid " + render(zero, zero, zero, zero)
					}
					commit()
					return "ok " + render(zero, zero, zero, zero)
				})
				w.Count("edit:" + strings.SplitN(res, " ", 2)[0])
				w.Step(fmt.Sprintf("infl edit %s %s %s %s %s %s %s", eppS, maxS, ppyS, psS, pcS, prS, fS), res)
			default:
				epoch++
				supply0 := nibiru.BankKeeper.GetSupply(ctx, denoms.NIBI).Amount
				fee0 := nibiru.BankKeeper.GetBalance(ctx, feeAddr, denoms.NIBI).Amount
				root0 := nibiru.BankKeeper.GetBalance(ctx, root, denoms.NIBI).Amount
				cp0 := nibiru.DistrKeeper.GetFeePool(ctx).CommunityPool.AmountOf(denoms.NIBI)
				viaEpochs := r.Chance(1, 3)
				res := hx.Recover(func() string {
					if viaEpochs {
						// through the real epochs module: the day epoch number `epoch` is about to end (counting started, a day and an
						// hour have passed since it began); its BeginBlocker ends it and calls the registered hooks with that number
						ek := nibiru.EpochsKeeper
						for _, e := range ek.AllEpochInfos(ctx) {
							_ = ek.DeleteEpochInfo(ctx, e.Identifier)
						}
						now := ctx.BlockTime()
						ek.Epochs.Insert(ctx, "day", epochstypes.EpochInfo{Identifier: "day", StartTime: now.Add(-1000 * time.Hour), Duration: 24 * time.Hour,
							CurrentEpoch: epoch, CurrentEpochStartTime: now.Add(-25 * time.Hour), EpochCountingStarted: true,
							CurrentEpochStartHeight: ctx.BlockHeight()})
						epochs.BeginBlocker(ctx, *ek)
					} else {
						k.Hooks().AfterEpochEnd(ctx, "day", epoch)
					}
					supply1 := nibiru.BankKeeper.GetSupply(ctx, denoms.NIBI).Amount
					fee1 := nibiru.BankKeeper.GetBalance(ctx, feeAddr, denoms.NIBI).Amount
					root1 := nibiru.BankKeeper.GetBalance(ctx, root, denoms.NIBI).Amount
					cp1 := nibiru.DistrKeeper.GetFeePool(ctx).CommunityPool.AmountOf(denoms.NIBI)
					return render(supply1.Sub(supply0), fee1.Sub(fee0), cp1.Sub(cp0).TruncateInt(), root1.Sub(root0))
				})
				if strings.HasPrefix(res, "0 ") {
					w.Count("epoch:nomint")
				} else {
					w.Count("epoch:mint")
				}
				w.Step(fmt.Sprintf("infl epoch %d", epoch), res)
			}
		}
	}
	_ = sdk.AccAddress{}
	return nil
}
